// C11: joint allocations stay inside the object's single block and it is freed whole.
//
// Exhaustive enumeration on the real joint_ptr / joint_allocator / joint_array code:
//   * joint types generated from member layouts x element (size,alignment) pairs,
//   * objects (element counts, additional size around the exact fit),
//   * operation sequences over two joint_ptr slots bound to two distinct instrumented upstreams.
// The oracle is a boring reference model (aligned bump fit + ownership table) compared with what the
// instrumented upstream allocators and the instrumented element type observe.
//
// This file is the whole harness; it is compiled through h_joint.cpp (all 675 joint types in one TU) and through
// h_joint_p0..p3.cpp (a quarter of the types each, so that the compile time is spread over cores).
//
//   h_joint [--part k --of N] [--depth d] --tier quick|thorough --out file
//   h_joint --replay '{"type":"L1/s1a1/s8a8","n1":1,"n2":1,"add":9,"ops":[0,13]}'
#ifndef VERIF_JOINT_PARTS
#define VERIF_JOINT_PARTS 1
#define VERIF_JOINT_PART 0
#endif
#include "../engine/core.hpp"

#include <cstddef>
#include <new>
#include <type_traits>
#include <utility>
#include <vector>

#include <foonathan/memory/joint_allocator.hpp>
#include <foonathan/memory/std_allocator.hpp>

namespace fm = foonathan::memory;
using namespace verif;

namespace
{
    //=== first failure of the current sequence ===//
    struct failure
    {
        bool set;
        bool harness; // true: divergence of the reference model / harness resource, not a property violation
        char tag[48];
        char detail[512];
    };
    failure g_fail;

    void fail(const char* tag, const char* f, ...)
    {
        if (g_fail.set)
            return;
        g_fail.set     = true;
        g_fail.harness = false;
        std::snprintf(g_fail.tag, sizeof g_fail.tag, "%s", tag);
        va_list ap;
        va_start(ap, f);
        std::vsnprintf(g_fail.detail, sizeof g_fail.detail, f, ap);
        va_end(ap);
    }
    void harness_fail(const char* tag, const char* f, ...)
    {
        if (g_fail.set)
            return;
        g_fail.set     = true;
        g_fail.harness = true;
        std::snprintf(g_fail.tag, sizeof g_fail.tag, "%s", tag);
        va_list ap;
        va_start(ap, f);
        std::vsnprintf(g_fail.detail, sizeof g_fail.detail, f, ap);
        va_end(ap);
    }

    //=== instrumented upstream allocators ===//
    constexpr std::size_t GUARD  = 32;
    constexpr std::size_t ARENA  = 8192;
    constexpr int         MAXBLK = 24;
    constexpr u8          G_PRE = 0xA7, G_POST = 0xB9, F_NEW = 0xC3, F_FREED = 0xD5;

    alignas(64) u8 g_arena[2][ARENA];
    u8 g_livemap[2][ARENA]; // 0 free, 2 first byte of a live element, 1 other byte of a live element
    long        g_live_in_arena = 0; // elements alive inside the arenas
    long        g_live_outside  = 0; // harness temporaries (value passed to joint_array(size, val, j))
    long        g_elem_ctor = 0, g_elem_dtor = 0;
    std::size_t g_sizeofT = 0; // sizeof of the joint type of the running case

    struct block
    {
        u8*         addr;
        std::size_t size, align, hdr;
        bool        live;
    };

    struct upstream
    {
        using is_stateful = std::true_type;

        int         id;
        std::size_t residue; // blocks start at an address == residue (mod 16) when the requested alignment allows it
        std::size_t top;
        block       blk[MAXBLK];
        int         nblk;
        long        n_alloc, n_dealloc;

        u8* base() const
        {
            return g_arena[id];
        }

        void reset(int i, std::size_t res)
        {
            id      = i;
            residue = res;
            top     = 0;
            nblk    = 0;
            n_alloc = n_dealloc = 0;
        }

        // placement is a pure function of the history: bump, never reused inside one sequence
        u8* peek(std::size_t alignment) const
        {
            std::size_t a   = alignment > 16 ? alignment : 16;
            auto        p   = reinterpret_cast<std::uintptr_t>(base()) + top + GUARD;
            p               = (p + a - 1) / a * a;
            std::size_t res = residue % 16;
            if (alignment != 0 && res % alignment == 0)
                p += res;
            return reinterpret_cast<u8*>(p);
        }

        void* allocate_node(std::size_t size, std::size_t alignment)
        {
            u8* p = peek(alignment);
            if (nblk == MAXBLK || p + size + GUARD > base() + ARENA)
            {
                harness_fail("arena-exhausted", "upstream %c cannot serve %zu bytes", 'A' + id, size);
                throw std::bad_alloc();
            }
            std::memset(p - GUARD, G_PRE, GUARD);
            std::memset(p, F_NEW, size);
            std::memset(p + size, G_POST, GUARD);
            top         = std::size_t(p + size + GUARD - base());
            blk[nblk++] = block{p, size, alignment, g_sizeofT, true};
            ++n_alloc;
            return p;
        }

        int find(const void* p) const
        {
            for (int i = 0; i != nblk; ++i)
                if (blk[i].addr == p)
                    return i;
            return -1;
        }

        bool guards_ok(const block& b, long* where) const
        {
            static const u8 pre[GUARD]  = {G_PRE, G_PRE, G_PRE, G_PRE, G_PRE, G_PRE, G_PRE, G_PRE, G_PRE, G_PRE, G_PRE,
                                           G_PRE, G_PRE, G_PRE, G_PRE, G_PRE, G_PRE, G_PRE, G_PRE, G_PRE, G_PRE, G_PRE,
                                           G_PRE, G_PRE, G_PRE, G_PRE, G_PRE, G_PRE, G_PRE, G_PRE, G_PRE, G_PRE};
            static const u8 post[GUARD] = {G_POST, G_POST, G_POST, G_POST, G_POST, G_POST, G_POST, G_POST,
                                           G_POST, G_POST, G_POST, G_POST, G_POST, G_POST, G_POST, G_POST,
                                           G_POST, G_POST, G_POST, G_POST, G_POST, G_POST, G_POST, G_POST,
                                           G_POST, G_POST, G_POST, G_POST, G_POST, G_POST, G_POST, G_POST};
            if (std::memcmp(b.addr - GUARD, pre, GUARD) == 0 && std::memcmp(b.addr + b.size, post, GUARD) == 0)
                return true;
            for (std::size_t i = 0; i != GUARD; ++i)
            {
                if (b.addr[b.size + i] != G_POST)
                {
                    *where = long(b.size + i);
                    return false;
                }
                if (b.addr[-long(i) - 1] != G_PRE)
                {
                    *where = -long(i) - 1;
                    return false;
                }
            }
            return false;
        }

        void deallocate_node(void* p, std::size_t size, std::size_t alignment) noexcept;

        bool contains(const void* p) const
        {
            auto c = static_cast<const u8*>(p);
            return c >= base() && c < base() + ARENA;
        }
    };

    upstream g_up[2];

    void upstream::deallocate_node(void* p, std::size_t size, std::size_t alignment) noexcept
    {
        ++n_dealloc;
        int i = find(p);
        if (i < 0)
        {
            int j = g_up[1 - id].find(p);
            if (j >= 0)
                fail("release-wrong-upstream",
                     "block #%d of upstream %c (size %zu) was released to upstream %c (size %zu alignment %zu)", j,
                     'A' + (1 - id), g_up[1 - id].blk[j].size, 'A' + id, size, alignment);
            else
                fail("release-unknown-pointer", "upstream %c: release of %p (size %zu) which is not the start of a block",
                     'A' + id, p, size);
            return;
        }
        block& b = blk[i];
        if (!b.live)
        {
            fail("release-twice", "upstream %c: block #%d (size %zu) released a second time", 'A' + id, i, b.size);
            return;
        }
        if (size != b.size)
            fail("release-size", "upstream %c: block #%d allocated with size %zu (object %zu + %zu) released with size %zu",
                 'A' + id, i, b.size, b.hdr, b.size - b.hdr, size);
        if (alignment != b.align)
            fail("release-alignment", "upstream %c: block #%d allocated with alignment %zu released with alignment %zu",
                 'A' + id, i, b.align, alignment);
        long w;
        if (!guards_ok(b, &w))
            fail("guard-damaged", "upstream %c: byte at offset %ld of block #%d (size %zu) was overwritten", 'A' + id, w, i,
                 b.size);
        std::size_t off = std::size_t(b.addr - base());
        for (std::size_t k = 0; k != b.size; ++k)
            if (g_livemap[id][off + k])
            {
                fail("released-with-live-element",
                     "upstream %c: block #%d released while an element at offset %zu was never destroyed", 'A' + id, i, k);
                break;
            }
        b.live = false;
        std::memset(b.addr, F_FREED, b.size);
    }

    //=== instrumented element type ===//
    constexpr u8 DEFCODE = 0x5A;

    inline u8 pat(u8 code, std::size_t k)
    {
        return u8(code ^ u8(k * 0x1D));
    }

    void elem_reg(const void* p, std::size_t S, std::size_t A)
    {
        ++g_elem_ctor;
        for (int u = 0; u != 2; ++u)
            if (g_up[u].contains(p))
            {
                auto        c   = static_cast<const u8*>(p);
                std::size_t off = std::size_t(c - g_up[u].base());
                bool        in  = false;
                for (int i = 0; i != g_up[u].nblk; ++i)
                {
                    const block& b = g_up[u].blk[i];
                    if (b.live && c >= b.addr + b.hdr && c + S <= b.addr + b.size)
                        in = true;
                }
                if (!in)
                {
                    // describe relative to the nearest block start below
                    int best = -1;
                    for (int i = 0; i != g_up[u].nblk; ++i)
                        if (g_up[u].blk[i].addr <= c)
                            best = i;
                    if (best >= 0)
                        fail("element-outside-block",
                             "an element of size %zu was constructed at offset [%ld,%ld) of block #%d of upstream %c whose "
                             "joint memory is [%zu,%zu)%s",
                             S, long(c - g_up[u].blk[best].addr), long(c - g_up[u].blk[best].addr + S), best, 'A' + u,
                             g_up[u].blk[best].hdr, g_up[u].blk[best].size, g_up[u].blk[best].live ? "" : " (block already released)");
                    else
                        fail("element-outside-block", "an element was constructed in upstream %c outside every block", 'A' + u);
                }
                if (reinterpret_cast<std::uintptr_t>(p) % A != 0)
                    fail("element-misaligned", "an element with alignment %zu was constructed at address %% %zu == %zu", A, A,
                         std::size_t(reinterpret_cast<std::uintptr_t>(p) % A));
                for (std::size_t k = 0; k != S && off + k < ARENA; ++k)
                {
                    if (g_livemap[u][off + k])
                    {
                        fail("element-overlap", "an element was constructed over a live element (upstream %c arena offset %zu)",
                             'A' + u, off + k);
                        break;
                    }
                }
                for (std::size_t k = 0; k != S && off + k < ARENA; ++k)
                    g_livemap[u][off + k] = k == 0 ? 2 : 1;
                ++g_live_in_arena;
                return;
            }
        ++g_live_outside;
    }

    void elem_unreg(const void* p, std::size_t S)
    {
        ++g_elem_dtor;
        for (int u = 0; u != 2; ++u)
            if (g_up[u].contains(p))
            {
                std::size_t off = std::size_t(static_cast<const u8*>(p) - g_up[u].base());
                if (g_livemap[u][off] != 2)
                {
                    fail("element-destroyed-twice", "destructor ran at upstream %c arena offset %zu where no element is alive",
                         'A' + u, off);
                    return;
                }
                for (std::size_t k = 0; k != S && off + k < ARENA; ++k)
                    g_livemap[u][off + k] = 0;
                --g_live_in_arena;
                return;
            }
        --g_live_outside;
    }

    template <std::size_t S, std::size_t A>
    struct alignas(A) elem
    {
        static constexpr std::size_t size_v = S, align_v = A;
        unsigned char                b[S];

        elem() noexcept
        {
            for (std::size_t k = 0; k != S; ++k)
                b[k] = pat(DEFCODE, k);
            elem_reg(this, S, A);
        }
        explicit elem(u8 code) noexcept
        {
            for (std::size_t k = 0; k != S; ++k)
                b[k] = pat(code, k);
            elem_reg(this, S, A);
        }
        elem(const elem& o) noexcept
        {
            std::memcpy(b, o.b, S);
            elem_reg(this, S, A);
        }
        elem(elem&& o) noexcept
        {
            std::memcpy(b, o.b, S);
            elem_reg(this, S, A);
        }
        elem& operator=(const elem& o) noexcept
        {
            std::memcpy(b, o.b, S);
            return *this;
        }
        ~elem() noexcept
        {
            elem_unreg(this, S);
        }
    };
    static_assert(sizeof(elem<1, 1>) == 1 && sizeof(elem<16, 2>) == 16 && alignof(elem<16, 16>) == 16 && sizeof(elem<8, 4>) == 8, "");

    //=== joint types generated from member layouts ===//
    constexpr unsigned MAXN = 96;

    struct spec
    {
        unsigned  n1, n2;
        const u8 *c1, *c2;
    };

    struct code_iter // plain input iterator without a distance: forces the bump path of joint_array's range constructor
    {
        const u8* p;
        u8        operator*() const
        {
            return *p;
        }
        code_iter& operator++()
        {
            ++p;
            return *this;
        }
        code_iter operator++(int)
        {
            auto t = *this;
            ++p;
            return t;
        }
        friend bool operator==(code_iter a, code_iter b)
        {
            return a.p == b.p;
        }
        friend bool operator!=(code_iter a, code_iter b)
        {
            return a.p != b.p;
        }
    };

    template <class E>
    using jalloc = fm::std_allocator<E, fm::joint_allocator>;
    template <class E>
    using jvec = std::vector<E, jalloc<E>>;

    template <class E, class J>
    jalloc<E> mkalloc(J& j)
    {
        fm::joint_allocator ja(j);
        return jalloc<E>(ja);
    }

    struct view
    {
        const void* obj;
        const void* alloc;
        const u8 *  d1, *d2;
        std::size_t n1, n2;     // element counts
        std::size_t cap1, cap2; // elements of memory handed out
    };

    // layout 0: joint_array (size constructor, default elements) + joint_array (range constructor, bump path)
    template <class E1, class E2>
    struct JT0 : fm::joint_type<JT0<E1, E2>>
    {
        using base = fm::joint_type<JT0<E1, E2>>;
        fm::joint_array<E1> a;
        fm::joint_array<E2> b;
        JT0(fm::joint j, const spec& s) : base(j), a(s.n1, *this), b(code_iter{s.c2}, code_iter{s.c2 + s.n2}, *this) {}
        JT0(fm::joint j, const JT0& o) : base(j), a(o.a, *this), b(o.b, *this) {}
        JT0(fm::joint j, JT0&& o) : base(j), a(std::move(o.a), *this), b(std::move(o.b), *this) {}
        void look(view& v) const
        {
            v.d1 = reinterpret_cast<const u8*>(a.data()), v.n1 = v.cap1 = a.size();
            v.d2 = reinterpret_cast<const u8*>(b.data()), v.n2 = v.cap2 = b.size();
        }
    };
    // layout 1: joint_array (range constructor) + vector<_, joint_allocator> (reserve + emplace_back, as the repo's test)
    template <class E1, class E2>
    struct JT1 : fm::joint_type<JT1<E1, E2>>
    {
        using base = fm::joint_type<JT1<E1, E2>>;
        fm::joint_array<E1> a;
        jvec<E2>            v;
        JT1(fm::joint j, const spec& s) : base(j), a(code_iter{s.c1}, code_iter{s.c1 + s.n1}, *this), v(mkalloc<E2>(*this))
        {
            v.reserve(s.n2);
            for (unsigned i = 0; i != s.n2; ++i)
                v.emplace_back(s.c2[i]);
        }
        JT1(fm::joint j, const JT1& o) : base(j), a(o.a, *this), v(o.v, mkalloc<E2>(*this)) {}
        JT1(fm::joint j, JT1&& o) : base(j), a(std::move(o.a), *this), v(std::move(o.v), mkalloc<E2>(*this)) {}
        void look(view& w) const
        {
            w.d1 = reinterpret_cast<const u8*>(a.data()), w.n1 = w.cap1 = a.size();
            w.d2 = reinterpret_cast<const u8*>(v.data()), w.n2 = v.size(), w.cap2 = v.capacity();
        }
    };
    // layout 2: vector<_, joint_allocator> first (sized constructor) + joint_array (size + value constructor)
    template <class E1, class E2>
    struct JT2 : fm::joint_type<JT2<E1, E2>>
    {
        using base = fm::joint_type<JT2<E1, E2>>;
        jvec<E1>            v;
        fm::joint_array<E2> b;
        JT2(fm::joint j, const spec& s) : base(j), v(s.n1, mkalloc<E1>(*this)), b(s.n2, E2(s.c2[0]), *this) {}
        JT2(fm::joint j, const JT2& o) : base(j), v(o.v, mkalloc<E1>(*this)), b(o.b, *this) {}
        JT2(fm::joint j, JT2&& o) : base(j), v(std::move(o.v), mkalloc<E1>(*this)), b(std::move(o.b), *this) {}
        void look(view& w) const
        {
            w.d1 = reinterpret_cast<const u8*>(v.data()), w.n1 = v.size(), w.cap1 = v.capacity();
            w.d2 = reinterpret_cast<const u8*>(b.data()), w.n2 = w.cap2 = b.size();
        }
    };

    //=== type erased per-type operations (thin wrappers around the library calls) ===//
    struct type_ops
    {
        int         layout;
        std::size_t s1, a1, s2, a2, sizeofT, alignofT;
        void (*init)(void*, upstream&);
        void (*create)(void*, upstream&, std::size_t, const spec&);
        void (*moveobj)(void*, void*, upstream&, std::size_t);
        void (*clone)(void*, void*, upstream&);
        void (*pmove)(void*, void*);
        void (*assign)(void*, void*);
        void (*reset)(void*);
        void (*null)(void*);
        void (*swap)(void*, void*);
        void (*destroy)(void*);
        void (*look)(void*, view&);
    };

    constexpr std::size_t SLOT_BYTES = 32;

    template <class T>
    struct impl
    {
        using JP = fm::joint_ptr<T, upstream>;
        static_assert(sizeof(JP) <= SLOT_BYTES, "slot storage too small");
        static JP& P(void* s)
        {
            return *static_cast<JP*>(s);
        }
        static void init(void* s, upstream& u)
        {
            ::new (s) JP(u);
        }
        static void create(void* s, upstream& u, std::size_t add, const spec& sp)
        {
            P(s) = fm::allocate_joint<T>(u, fm::joint_size(add), sp);
        }
        static void moveobj(void* d, void* s, upstream& u, std::size_t add)
        {
            P(d) = fm::allocate_joint<T>(u, fm::joint_size(add), std::move(*P(s)));
        }
        static void clone(void* d, void* s, upstream& u)
        {
            P(d) = fm::clone_joint(u, *P(s));
        }
        static void pmove(void* d, void* s)
        {
            P(d).~JP();
            ::new (d) JP(std::move(P(s)));
        }
        static void assign(void* d, void* s)
        {
            P(d) = std::move(P(s));
        }
        static void reset(void* s)
        {
            P(s).reset();
        }
        static void null(void* s)
        {
            P(s) = nullptr;
        }
        static void swap_(void* a, void* b)
        {
            swap(P(a), P(b));
        }
        static void destroy(void* s)
        {
            P(s).~JP();
        }
        static void look(void* s, view& v)
        {
            JP& p   = P(s);
            v.obj   = p.get();
            v.alloc = &p.get_allocator();
            v.d1 = v.d2 = nullptr;
            v.n1 = v.n2 = v.cap1 = v.cap2 = 0;
            if (p.get())
                p->look(v);
        }
    };

    template <int L, class E1, class E2>
    struct pick;
    template <class E1, class E2>
    struct pick<0, E1, E2>
    {
        using type = JT0<E1, E2>;
    };
    template <class E1, class E2>
    struct pick<1, E1, E2>
    {
        using type = JT1<E1, E2>;
    };
    template <class E1, class E2>
    struct pick<2, E1, E2>
    {
        using type = JT2<E1, E2>;
    };

    template <std::size_t I>
    struct elem_at;
#define VERIF_E(i, s, a)                                                                                               \
    template <>                                                                                                        \
    struct elem_at<i>                                                                                                  \
    {                                                                                                                  \
        using type = elem<s, a>;                                                                                       \
    };
    // all (size, alignment) with size, alignment in {1,2,4,8,16} and size a multiple of alignment
    VERIF_E(0, 1, 1)
    VERIF_E(1, 2, 1)
    VERIF_E(2, 4, 1)
    VERIF_E(3, 8, 1)
    VERIF_E(4, 16, 1)
    VERIF_E(5, 2, 2)
    VERIF_E(6, 4, 2)
    VERIF_E(7, 8, 2)
    VERIF_E(8, 16, 2)
    VERIF_E(9, 4, 4)
    VERIF_E(10, 8, 4)
    VERIF_E(11, 16, 4)
    VERIF_E(12, 8, 8)
    VERIF_E(13, 16, 8)
    VERIF_E(14, 16, 16)
    constexpr std::size_t NELEM = 15, NLAYOUT = 3, NTYPES_ALL = NLAYOUT * NELEM * NELEM;
    // this translation unit instantiates the joint types with global index K == PART (mod PARTS)
    constexpr std::size_t PARTS = VERIF_JOINT_PARTS, PART = VERIF_JOINT_PART;
    constexpr std::size_t NTYPES = (NTYPES_ALL - PART + PARTS - 1) / PARTS;

    template <std::size_t J>
    constexpr type_ops make_ops()
    {
        constexpr std::size_t K = J * PARTS + PART;
        static_assert(K < NTYPES_ALL, "");
        using E1 = typename elem_at<(K % (NELEM * NELEM)) / NELEM>::type;
        using E2 = typename elem_at<K % NELEM>::type;
        using T  = typename pick<int(K / (NELEM * NELEM)), E1, E2>::type;
        using I  = impl<T>;
        return type_ops{int(K / (NELEM * NELEM)), E1::size_v, E1::align_v, E2::size_v, E2::align_v, sizeof(T), alignof(T),
                        &I::init,   &I::create, &I::moveobj, &I::clone, &I::pmove, &I::assign, &I::reset,
                        &I::null,   &I::swap_,  &I::destroy, &I::look};
    }
    template <std::size_t... J>
    const type_ops* make_table(std::index_sequence<J...>)
    {
        static const type_ops t[] = {make_ops<J>()...};
        return t;
    }
    const type_ops* g_types = make_table(std::make_index_sequence<NTYPES>{});

    std::string type_name(std::size_t k)
    {
        const type_ops& t = g_types[k];
        return fmt("L%d/s%zua%zu/s%zua%zu", t.layout, t.s1, t.a1, t.s2, t.a2);
    }

    //=== reference model ===//
    struct req
    {
        std::size_t size, align;
    };

    // creation == true: requests made by the constructor from a spec; false: by the copy / move-with-allocator constructor
    int requests(const type_ops& t, bool creation, std::size_t n1, std::size_t n2, req* r)
    {
        int n = 0;
        // member 1
        bool m1_array = t.layout != 2;
        bool m2_array = t.layout != 1;
        // joint_array: the size constructors and the copy/move constructors always ask the stack (also for 0 elements),
        // the range constructor asks only when the range is not empty; a vector asks only for a non-empty buffer
        bool m1_always = m1_array && (!creation || t.layout == 0);
        bool m2_always = m2_array && (!creation || t.layout == 2);
        if (m1_always || n1 > 0)
            r[n++] = req{n1 * t.s1, t.a1};
        if (m2_always || n2 > 0)
            r[n++] = req{n2 * t.s2, t.a2};
        return n;
    }

    // aligned bump allocation inside [mem, mem+cap): does the request list fit, and how much is used afterwards
    bool model_fit(std::uintptr_t mem, std::size_t cap, const req* r, int n, std::size_t* used)
    {
        std::uintptr_t top = mem, end = mem + cap;
        for (int i = 0; i != n; ++i)
        {
            std::uintptr_t al = (top + r[i].align - 1) / r[i].align * r[i].align;
            if (al > end || r[i].size > end - al)
                return false;
            top = al + r[i].size;
        }
        if (used)
            *used = std::size_t(top - mem);
        return true;
    }

    std::size_t need_at(const type_ops& t, std::size_t residue, std::size_t n1, std::size_t n2)
    {
        req r[2];
        int n = requests(t, true, n1, n2, r);
        // mem address == residue + sizeof(T) (mod 16); 1<<20 is a multiple of every alignment
        std::uintptr_t mem = (std::uintptr_t(1) << 20) + residue + t.sizeofT;
        std::size_t    used = 0;
        model_fit(mem, std::size_t(1) << 16, r, n, &used);
        return used;
    }

    constexpr int MAXOBJ = 16;
    struct mobj
    {
        bool     live;
        int      up, blk;
        unsigned n1, n2;
        bool     moved_from;
        u8       c1[MAXN], c2[MAXN];
    };

    //=== operations ===//
    enum
    {
        K_CREATE = 0,
        K_CREATE_OVER,
        K_MOVEOBJ,
        K_CLONE,
        OP_PMOVE  = 16,
        OP_ASSIGN = 18,
        OP_RESET  = 20,
        OP_NULL   = 22,
        OP_SWAP   = 24,
        OP_DESTROY = 25,
        NOPS      = 27
    };

    std::string op_name(int op)
    {
        if (op < 16)
        {
            int  k = op / 4, i = (op / 2) % 2;
            char X = 'A' + op % 2;
            switch (k)
            {
            case K_CREATE:
                return fmt("p%d = allocate_joint<T>(%c, joint_size(add), n1, n2)", i, X);
            case K_CREATE_OVER:
                return fmt("p%d = allocate_joint<T>(%c, joint_size(add), n1, n2 one past capacity)", i, X);
            case K_MOVEOBJ:
                return fmt("p%d = allocate_joint<T>(%c, move(*p%d))", i, X, 1 - i);
            default:
                return fmt("p%d = clone_joint(%c, *p%d)", i, X, 1 - i);
            }
        }
        if (op < 18)
            return fmt("destroy p%d; new joint_ptr p%d(move(p%d))", op - 16, op - 16, 1 - (op - 16));
        if (op < 20)
            return fmt("p%d = move(p%d)", op - 18, 1 - (op - 18));
        if (op < 22)
            return fmt("p%d.reset()", op - 20);
        if (op < 24)
            return fmt("p%d = nullptr", op - 22);
        if (op == 24)
            return "swap(p0, p1)";
        return fmt("destroy p%d; new null joint_ptr p%d(%c)", op - 25, op - 25, 'A' + (op - 25));
    }

    struct the_case
    {
        std::size_t type;
        unsigned    n1, n2;
        std::size_t add;
        int         cls; // class index used for the distinct-case counter
    };

    struct run_stats
    {
        u64 ops = 0, allocating_ops = 0, threw = 0, clones_ok = 0, clones_refused = 0, moveobj_ok = 0, moveobj_refused = 0,
            creates_ok = 0, creates_refused = 0, cross_upstream_assign = 0, releases = 0, skipped = 0,
            refused_with_padding = 0, clones_refused_same_residue = 0;
    };
    run_stats g_stats;

    // distinct (type, object class, op, abstract pre-state, outcome) tuples that reached the oracle
    constexpr std::size_t NCLS = 64;
    std::vector<u8>       g_seen;
    u64                   g_distinct = 0;
    void                  note_class(const the_case& c, int op, int pre, int outcome)
    {
        std::size_t idx = (((c.type * NCLS + std::size_t(c.cls)) * NOPS + std::size_t(op)) * 36 + std::size_t(pre)) * 3
                          + std::size_t(outcome);
        u8 bit = u8(1u << (idx & 7));
        if (!(g_seen[idx >> 3] & bit))
        {
            g_seen[idx >> 3] |= bit;
            ++g_distinct;
        }
    }

    struct runner
    {
        const type_ops* t;
        the_case        c;
        alignas(16) u8 slot[2][SLOT_BYTES];
        int  mslot[2];
        mobj objs[MAXOBJ];
        int  nobj;
        long exp_alloc[2], exp_dealloc[2];
        int  serial;
        bool verbose;
        bool skipped_last;

        void begin(const type_ops* tt, const the_case& cc, bool verb)
        {
            t       = tt;
            c       = cc;
            verbose = verb;
            // forget everything of the previous sequence (which may have been abandoned half way)
            for (int u = 0; u != 2; ++u)
            {
                std::size_t used = g_up[u].top + 64 < ARENA ? g_up[u].top + 64 : ARENA;
                std::memset(g_livemap[u], 0, used);
                g_up[u].reset(u, u == 0 ? 0 : 8);
            }
            g_live_in_arena = g_live_outside = 0;
            g_fail.set                       = false;
            g_sizeofT                        = t->sizeofT;
            nobj                             = 0;
            serial                           = 0;
            mslot[0] = mslot[1] = -1;
            exp_alloc[0] = exp_alloc[1] = exp_dealloc[0] = exp_dealloc[1] = 0;
            t->init(slot[0], g_up[0]);
            t->init(slot[1], g_up[1]);
        }

        int slot_state(int s) const // 0 null, 1 owns block of A, 2 of B; +3 if moved-from
        {
            if (mslot[s] < 0)
                return 0;
            const mobj& o = objs[mslot[s]];
            return 1 + o.up + (o.moved_from ? 3 : 0);
        }
        int pre_state() const
        {
            return slot_state(0) * 6 + slot_state(1);
        }

        u8 expected_code(const mobj& o, int member, unsigned i) const
        {
            if (member == 1)
                return t->layout == 1 ? o.c1[i] : DEFCODE;       // L0.a, L2.v default constructed
            return t->layout == 2 ? o.c2[0] : o.c2[i];           // L2.b copies of one value
        }

        void fill_codes(mobj& o)
        {
            ++serial;
            for (unsigned i = 0; i != MAXN; ++i)
            {
                o.c1[i] = u8(0x21 + serial * 37 + i * 3);
                o.c2[i] = u8(0x83 + serial * 11 + i * 5);
            }
        }

        void kill(int m)
        {
            if (m >= 0)
            {
                objs[m].live = false;
                ++exp_dealloc[objs[m].up];
                ++g_stats.releases;
            }
        }

        // the oracle evaluated after every operation
        int         after_code_;
        const char* aft() const // text of the operation just executed, formatted only when something failed
        {
            static char buf[160];
            std::snprintf(buf, sizeof buf, "%s",
                          after_code_ == -1 ? "destroying p0 at the end" :
                          after_code_ == -2 ? "destroying p1 at the end" :
                                              op_name(after_code_).c_str());
            return buf;
        }
        void check_state(int after_code)
        {
            after_code_ = after_code;
            if (g_fail.set)
                return;
            view        v[2];
            std::size_t elems = 0;
            int         liveblk[2] = {0, 0};
            for (int s = 0; s != 2; ++s)
            {
                t->look(slot[s], v[s]);
                int m = mslot[s];
                if ((m < 0) != (v[s].obj == nullptr))
                    return fail("ownership-mismatch", "after %s: p%d %s an object but must %s", aft(), s,
                                v[s].obj ? "owns" : "does not own", m < 0 ? "be null" : "own one");
                if (m < 0)
                    continue;
                const mobj&     o = objs[m];
                const upstream& u = g_up[o.up];
                const block&    b = u.blk[o.blk];
                ++liveblk[o.up];
                if (v[s].obj != b.addr)
                    return fail("ownership-mismatch", "after %s: p%d points to %p, its object lives in block #%d of upstream %c at %p",
                                aft(), s, v[s].obj, o.blk, 'A' + o.up, (void*)b.addr);
                if (!b.live)
                    return fail("owner-of-released-block", "after %s: p%d owns an object whose block #%d of upstream %c was released",
                                aft(), s, o.blk, 'A' + o.up);
                if (v[s].alloc != &u)
                    return fail("allocator-binding",
                                "after %s: p%d owns the object in block #%d of upstream %c but get_allocator() refers to %s", aft(), s,
                                o.blk, 'A' + o.up,
                                v[s].alloc == &g_up[1 - o.up] ? (o.up ? "upstream A" : "upstream B") : "something else");
                const u8*   lo    = b.addr + t->sizeofT;
                const u8*   hi    = b.addr + b.size;
                const u8*   d[2]  = {v[s].d1, v[s].d2};
                std::size_t n[2]  = {v[s].n1, v[s].n2};
                std::size_t cp[2] = {v[s].cap1, v[s].cap2};
                std::size_t es[2] = {t->s1, t->s2}, ea[2] = {t->a1, t->a2};
                for (int k = 0; k != 2; ++k)
                {
                    if (!d[k])
                    {
                        if (cp[k] != 0 || n[k] != 0)
                            return fail("piece-null", "after %s: member %d of p%d reports %zu elements but a null pointer", aft(),
                                        k + 1, s, n[k]);
                        continue;
                    }
                    if (d[k] < lo || d[k] > hi || std::size_t(hi - d[k]) < cp[k] * es[k])
                        return fail("piece-outside-block",
                                    "after %s: member %d of p%d received [%ld,%ld) (offsets from the block start) but the joint memory "
                                    "of its block (upstream %c #%d) is [%zu,%zu)",
                                    aft(), k + 1, s, long(d[k] - b.addr), long(d[k] - b.addr + long(cp[k] * es[k])), 'A' + o.up, o.blk,
                                    t->sizeofT, b.size);
                    if (reinterpret_cast<std::uintptr_t>(d[k]) % ea[k] != 0)
                        return fail("piece-misaligned", "after %s: member %d of p%d (alignment %zu) received address %% %zu == %zu", aft(),
                                    k + 1, s, ea[k], ea[k], std::size_t(reinterpret_cast<std::uintptr_t>(d[k]) % ea[k]));
                }
                if (d[0] && d[1] && cp[0] && cp[1])
                {
                    const u8 *e0 = d[0] + cp[0] * es[0], *e1 = d[1] + cp[1] * es[1];
                    if (d[0] < e1 && d[1] < e0)
                        return fail("pieces-overlap", "after %s: members of p%d overlap: [%ld,%ld) and [%ld,%ld)", aft(), s,
                                    long(d[0] - b.addr), long(e0 - b.addr), long(d[1] - b.addr), long(e1 - b.addr));
                }
                elems += n[0] + n[1];
                if (!o.moved_from)
                {
                    if (n[0] != o.n1 || n[1] != o.n2)
                        return fail("content-mismatch", "after %s: p%d holds %zu+%zu elements, expected %u+%u", aft(), s, n[0], n[1], o.n1,
                                    o.n2);
                    for (int k = 0; k != 2; ++k)
                        for (std::size_t i = 0; i != n[k]; ++i)
                        {
                            u8 code = expected_code(o, k + 1, unsigned(i));
                            for (std::size_t j = 0; j != es[k]; ++j)
                                if (d[k][i * es[k] + j] != pat(code, j))
                                    return fail("content-mismatch",
                                                "after %s: element %zu of member %d of p%d (block #%d of upstream %c) byte %zu is 0x%02x, "
                                                "expected 0x%02x",
                                                aft(), i, k + 1, s, o.blk, 'A' + o.up, j, d[k][i * es[k] + j], pat(code, j));
                        }
                }
            }
            if (v[0].obj && v[0].obj == v[1].obj)
                return fail("double-ownership", "after %s: both pointers own %p", aft(), v[0].obj);
            for (int u = 0; u != 2; ++u)
            {
                if (g_up[u].n_alloc != exp_alloc[u])
                    return fail("upstream-allocation-count", "after %s: upstream %c served %ld allocations, expected %ld (one per object)",
                                aft(), 'A' + u, g_up[u].n_alloc, exp_alloc[u]);
                if (g_up[u].n_dealloc != exp_dealloc[u])
                    return fail("upstream-release-count",
                                "after %s: upstream %c saw %ld releases, expected %ld (one per destroyed object, to the upstream that "
                                "allocated it)",
                                aft(), 'A' + u, g_up[u].n_dealloc, exp_dealloc[u]);
                int live = 0;
                for (int i = 0; i != g_up[u].nblk; ++i)
                {
                    const block& b = g_up[u].blk[i];
                    live += b.live;
                    long w;
                    if (!g_up[u].guards_ok(b, &w))
                        return fail("guard-damaged", "after %s: byte at offset %ld of block #%d (size %zu) of upstream %c was overwritten",
                                    aft(), w, i, b.size, 'A' + u);
                }
                if (live != liveblk[u])
                    return fail("block-not-released", "after %s: upstream %c has %d outstanding blocks, %d objects are owned", aft(),
                                'A' + u, live, liveblk[u]);
            }
            if (g_live_in_arena != long(elems))
                return fail("element-balance", "after %s: %ld elements are alive in joint memory, the owned objects hold %zu", aft(),
                            g_live_in_arena, elems);
            if (g_live_outside != 0)
                return fail("element-balance", "after %s: %ld temporary elements outside joint memory were not destroyed", aft(),
                            g_live_outside);
        }

        // one allocating operation (create / create-over / move-with-allocator / clone) into slot i on upstream X
        void allocating(int op, int kind, int i, int X)
        {
            upstream& u   = g_up[X];
            int       src = mslot[1 - i];
            if ((kind == K_MOVEOBJ || kind == K_CLONE) && src < 0)
            {
                skipped_last = true; // operator* on a null joint_ptr is outside the contract
                return;
            }
            spec sp;
            mobj fresh;
            fresh.live = true, fresh.up = X, fresh.moved_from = false;
            std::size_t add = c.add;
            req         r[2];
            int         nr = 0;
            if (kind == K_CREATE || kind == K_CREATE_OVER)
            {
                fill_codes(fresh);
                fresh.n1 = c.n1, fresh.n2 = c.n2;
                if (kind == K_CREATE_OVER)
                {
                    // smallest count of the second member that does not fit where the block is going to be placed
                    std::uintptr_t mem = reinterpret_cast<std::uintptr_t>(u.peek(t->alignofT)) + t->sizeofT;
                    for (;;)
                    {
                        nr = requests(*t, true, fresh.n1, fresh.n2, r);
                        if (!model_fit(mem, add, r, nr, nullptr))
                            break;
                        if (++fresh.n2 >= MAXN)
                        {
                            skipped_last = true;
                            return;
                        }
                    }
                }
                sp = spec{fresh.n1, fresh.n2, fresh.c1, fresh.c2};
                nr = requests(*t, true, fresh.n1, fresh.n2, r);
            }
            else
            {
                // what the copy / move constructor is going to request is determined by the source's current sizes
                view sv;
                t->look(slot[1 - i], sv);
                fresh    = objs[src]; // contents of (a copy of) a moved-from object are unspecified: the flag is inherited
                fresh.up = X;
                nr       = requests(*t, false, sv.n1, sv.n2, r);
            }
            long a0 = u.n_alloc, d0 = u.n_dealloc, oa0 = g_up[1 - X].n_alloc;
            int  nblk0 = u.nblk;
            long live0 = g_live_in_arena;
            int  threw = 0;
            try
            {
                if (kind == K_CREATE || kind == K_CREATE_OVER)
                    t->create(slot[i], u, add, sp);
                else if (kind == K_MOVEOBJ)
                    t->moveobj(slot[i], slot[1 - i], u, add);
                else
                    t->clone(slot[i], slot[1 - i], u);
            }
            catch (const fm::out_of_fixed_memory&)
            {
                threw = 1;
            }
            catch (...)
            {
                threw = 2;
            }
            ++g_stats.allocating_ops;
            if (g_fail.set)
                return;
            if (kind == K_MOVEOBJ)
                objs[src].moved_from = true;
            const char* what = kind == K_CLONE ? "clone_joint" : kind == K_MOVEOBJ ? "allocate_joint(move)" : "allocate_joint";
            if (u.n_alloc != a0 + 1 || g_up[1 - X].n_alloc != oa0 || u.nblk != nblk0 + 1)
                return fail("upstream-allocation-count", "%s made %ld allocations on upstream %c and %ld on the other one, expected exactly 1 and 0",
                            what, u.n_alloc - a0, 'A' + X, g_up[1 - X].n_alloc - oa0);
            ++exp_alloc[X];
            const block& b = u.blk[nblk0];
            if (b.align != t->alignofT)
                return fail("allocation-alignment", "%s asked the upstream for alignment %zu, alignof(T) is %zu", what, b.align, t->alignofT);
            if (kind != K_CLONE && b.size != t->sizeofT + add)
                return fail("allocation-size", "%s asked the upstream for %zu bytes, sizeof(T)+additional is %zu+%zu", what, b.size,
                            t->sizeofT, add);
            if (b.size < t->sizeofT)
                return fail("allocation-size", "%s asked the upstream for %zu bytes, sizeof(T) is %zu", what, b.size, t->sizeofT);
            std::uintptr_t mem  = reinterpret_cast<std::uintptr_t>(b.addr) + t->sizeofT;
            bool           fits = model_fit(mem, b.size - t->sizeofT, r, nr, nullptr);
            int            outcome = threw ? 1 : 0;
            note_class(c, op, pre_state_before, outcome);
            if (threw == 2)
                return fail("wrong-exception", "%s threw something that is not out_of_fixed_memory", what);
            if (!threw && !fits)
                return fail("no-throw-on-overflow",
                            "%s: members requesting %s do not fit into %zu bytes of joint memory at address %% 16 == %zu, but no "
                            "out_of_fixed_memory was thrown",
                            what, req_text(r, nr).c_str(), b.size - t->sizeofT, std::size_t(mem % 16));
            if (threw && fits)
                return harness_fail("model-mismatch",
                                    "%s threw out_of_fixed_memory although members requesting %s fit into %zu bytes at address %% 16 == %zu "
                                    "according to the reference model",
                                    what, req_text(r, nr).c_str(), b.size - t->sizeofT, std::size_t(mem % 16));
            if (threw)
            {
                last_threw = true;
                ++g_stats.threw;
                // did it fail only because of alignment padding?
                std::size_t raw = 0;
                for (int k = 0; k != nr; ++k)
                    raw += r[k].size;
                if (raw <= b.size - t->sizeofT)
                    ++g_stats.refused_with_padding;
                if (kind == K_CLONE)
                {
                    ++g_stats.clones_refused;
                    const mobj& so = objs[src];
                    if (reinterpret_cast<std::uintptr_t>(g_up[so.up].blk[so.blk].addr) % 16 == reinterpret_cast<std::uintptr_t>(b.addr) % 16)
                        ++g_stats.clones_refused_same_residue;
                }
                else if (kind == K_MOVEOBJ)
                    ++g_stats.moveobj_refused;
                else
                    ++g_stats.creates_refused;
                if (b.live)
                    return fail("block-not-released", "%s threw but the block it had allocated (size %zu) was not released", what, b.size);
                ++exp_dealloc[X];
                if (u.n_dealloc != d0 + 1)
                    return fail("upstream-release-count", "%s threw and released %ld blocks, expected 1", what, u.n_dealloc - d0);
                if (kind != K_MOVEOBJ && g_live_in_arena != live0)
                    return fail("element-balance", "%s threw and left %ld elements alive (before: %ld)", what, g_live_in_arena, live0);
                return; // slot i keeps what it had
            }
            if (kind == K_CLONE)
                ++g_stats.clones_ok;
            else if (kind == K_MOVEOBJ)
                ++g_stats.moveobj_ok;
            else
                ++g_stats.creates_ok;
            if (nobj == MAXOBJ)
                return harness_fail("model-capacity", "too many objects in one sequence");
            kill(mslot[i]);
            fresh.blk  = nblk0;
            objs[nobj] = fresh;
            mslot[i]   = nobj++;
        }

        static std::string req_text(const req* r, int n)
        {
            std::string s;
            for (int i = 0; i != n; ++i)
                s += fmt("%s(%zu bytes, alignment %zu)", i ? " then " : "", r[i].size, r[i].align);
            return n ? s : "nothing";
        }

        int  pre_state_before;
        bool last_threw;

        // returns false when the operation was skipped (precondition not met)
        bool apply(int op)
        {
            skipped_last     = false;
            last_threw       = false;
            pre_state_before = pre_state();
            ++g_stats.ops;
            if (op < 16)
            {
                allocating(op, op / 4, (op / 2) % 2, op % 2);
                if (skipped_last)
                {
                    ++g_stats.skipped;
                    return false;
                }
            }
            else
            {
                if (op < 18)
                {
                    int i = op - 16;
                    t->pmove(slot[i], slot[1 - i]);
                    kill(mslot[i]);
                    mslot[i]     = mslot[1 - i];
                    mslot[1 - i] = -1;
                }
                else if (op < 20)
                {
                    int i = op - 18;
                    if (mslot[1 - i] >= 0 && (mslot[i] < 0 || objs[mslot[i]].up != objs[mslot[1 - i]].up))
                        ++g_stats.cross_upstream_assign;
                    t->assign(slot[i], slot[1 - i]);
                    kill(mslot[i]);
                    mslot[i]     = mslot[1 - i];
                    mslot[1 - i] = -1;
                }
                else if (op < 22)
                {
                    t->reset(slot[op - 20]);
                    kill(mslot[op - 20]);
                    mslot[op - 20] = -1;
                }
                else if (op < 24)
                {
                    t->null(slot[op - 22]);
                    kill(mslot[op - 22]);
                    mslot[op - 22] = -1;
                }
                else if (op == 24)
                {
                    t->swap(slot[0], slot[1]);
                    std::swap(mslot[0], mslot[1]);
                }
                else
                {
                    int i = op - 25;
                    t->destroy(slot[i]);
                    kill(mslot[i]);
                    mslot[i] = -1;
                    t->init(slot[i], g_up[i]);
                }
                note_class(c, op, pre_state_before, 2);
            }
            if (verbose)
                std::printf("  %-60s -> %s%s\n", op_name(op).c_str(), last_threw ? "threw out_of_fixed_memory; " : "",
                            g_fail.set ? g_fail.tag : describe().c_str());
            check_state(op);
            return true;
        }

        std::string describe()
        {
            std::string s;
            for (int k = 0; k != 2; ++k)
            {
                if (mslot[k] < 0)
                    s += fmt("p%d=null ", k);
                else
                {
                    const mobj&  o = objs[mslot[k]];
                    const block& b = g_up[o.up].blk[o.blk];
                    view         v;
                    t->look(slot[k], v);
                    s += fmt("p%d=%c#%d(size %zu=%zu+%zu, base%%16=%zu%s; m1=[%ld,+%zu) m2=[%ld,+%zu)) ", k, 'A' + o.up, o.blk, b.size,
                             t->sizeofT, b.size - t->sizeofT, std::size_t(reinterpret_cast<std::uintptr_t>(b.addr) % 16),
                             o.moved_from ? ", moved-from" : "", v.d1 ? long(v.d1 - b.addr) : -1L, v.cap1 * t->s1,
                             v.d2 ? long(v.d2 - b.addr) : -1L, v.cap2 * t->s2);
                }
            }
            return s;
        }

        // destroy slot 0 first (a clone in slot 1 must survive its source), then slot 1; everything must be balanced
        void teardown()
        {
            if (g_fail.set)
                return;
            for (int i = 0; i != 2; ++i)
            {
                t->destroy(slot[i]);
                kill(mslot[i]);
                mslot[i] = -1;
                t->init(slot[i], g_up[i]);
                check_state(i == 0 ? -1 : -2);
                if (g_fail.set)
                    return;
            }
            t->destroy(slot[0]);
            t->destroy(slot[1]);
            for (int u = 0; u != 2; ++u)
                if (g_up[u].n_alloc != g_up[u].n_dealloc)
                    return fail("block-not-released", "at the end upstream %c served %ld allocations and %ld releases", 'A' + u,
                                g_up[u].n_alloc, g_up[u].n_dealloc);
            if (g_live_in_arena != 0 || g_live_outside != 0)
                return fail("element-balance", "at the end %ld elements are still alive", g_live_in_arena + g_live_outside);
        }
    };

    runner g_run;

    enum
    {
        RES_OK = 0,
        RES_SKIPPED,
        RES_VIOLATION,
        RES_HARNESS
    };

    // runs one sequence on fresh objects; contains abort / crash / hang
    int run_sequence(const the_case& c, const int* ops, int n, bool verbose, std::string* tag, std::string* detail)
    {
        volatile int  result = RES_OK;
        int           out    = OUT_OK;
        volatile bool skipped = false;
        VERIF_GUARDED(out, {
            g_run.begin(&g_types[c.type], c, verbose);
            for (int k = 0; k != n && !g_fail.set; ++k)
                if (!g_run.apply(ops[k]))
                {
                    skipped = true;
                    break;
                }
            g_run.teardown(); // also after a skipped operation: the prefix has to end balanced
        });
        if (out != OUT_OK)
        {
            if (!g_fail.set)
                fail(out == OUT_ABORTED ? "aborted" : out == OUT_CRASHED ? "crashed" : "hung",
                     "the library %s during a sequence that respects every documented precondition", outcome_name(out));
        }
        if (g_fail.set)
        {
            *tag   = g_fail.tag;
            *detail = g_fail.detail;
            result = g_fail.harness ? RES_HARNESS : RES_VIOLATION;
        }
        else if (skipped)
            result = RES_SKIPPED;
        return result;
    }

    std::string case_json(const the_case& c, const int* ops, int n)
    {
        jarr a;
        for (int i = 0; i != n; ++i)
            a.raw(std::to_string(ops[i]));
        jarr names;
        for (int i = 0; i != n; ++i)
            names.str(op_name(ops[i]));
        return jobj()
            .str("type", type_name(c.type))
            .num("n1", c.n1)
            .num("n2", c.n2)
            .num("add", (long long)c.add)
            .raw("ops", a.done())
            .raw("text", names.done())
            .done();
    }

    //=== enumeration ===//
    struct totals
    {
        u64                      sequences = 0, skipped = 0, violations_total = 0, objects = 0, types = 0, sweep_sequences = 0,
            history_sequences = 0;
        std::vector<std::string> viol, herr, samples;
        std::vector<std::string> seen_tags;
        int                      max_depth = 0;
    };
    totals g_tot;

    void report(const the_case& c, const int* ops, int n, int res, const std::string& tag, const std::string& detail)
    {
        // re-check: run the same case once more, the verdict has to be identical
        std::string tag2, detail2;
        int         res2 = run_sequence(c, ops, n, false, &tag2, &detail2);
        if (res2 != res || tag2 != tag)
        {
            if (g_tot.herr.size() < 20)
                g_tot.herr.push_back(fmt("verdict not reproducible for %s: first [%s] then [%s]", case_json(c, ops, n).c_str(), tag.c_str(),
                                         res2 == RES_OK ? "ok" : tag2.c_str()));
            return;
        }
        if (res == RES_HARNESS)
        {
            if (g_tot.herr.size() < 20)
                g_tot.herr.push_back(fmt("[%s] %s; case %s", tag.c_str(), detail.c_str(), case_json(c, ops, n).c_str()));
            return;
        }
        ++g_tot.violations_total;
        for (auto& s : g_tot.seen_tags)
            if (s == tag)
                return; // one (shortest-first) witness per tag and job
        g_tot.seen_tags.push_back(tag);
        g_tot.viol.push_back(jobj().str("tag", tag).str("detail", type_name(c.type) + ": " + detail).raw("input", case_json(c, ops, n)).done());
    }

    void one(const the_case& c, const int* ops, int n, bool* was_skipped)
    {
        std::string tag, detail;
        int         res = run_sequence(c, ops, n, false, &tag, &detail);
        ++g_tot.sequences;
        *was_skipped = res == RES_SKIPPED;
        if (res == RES_SKIPPED)
            ++g_tot.skipped;
        if (res == RES_VIOLATION || res == RES_HARNESS)
            report(c, ops, n, res, tag, detail);
    }

    // Exception unwinding dominates the run time, so the create that must throw is enumerated on one upstream per slot
    // (p0 on A, p1 on B); the slot it targets can still own nothing, a block of A or a block of B. --replay accepts all 27.
    bool in_alphabet(int op)
    {
        return !(op / 4 == K_CREATE_OVER && (op / 2) % 2 != op % 2);
    }
    int alphabet_size()
    {
        int n = 0;
        for (int op = 0; op != NOPS; ++op)
            n += in_alphabet(op);
        return n;
    }

    // all sequences of length 1..depth; a sequence whose last operation is outside the contract is not extended
    void dfs(const the_case& c, int* ops, int len, int depth)
    {
        for (int op = 0; op != NOPS; ++op)
        {
            if (!in_alphabet(op))
                continue;
            ops[len] = op;
            bool skipped;
            one(c, ops, len + 1, &skipped);
            ++g_tot.history_sequences;
            if (g_tot.samples.size() < 4 && len + 1 == depth && !skipped && (g_tot.sequences % 977) == 0)
                g_tot.samples.push_back(case_json(c, ops, len + 1));
            if (!skipped && len + 1 < depth)
                dfs(c, ops, len + 1, depth);
        }
    }

    int code(int kind, int i, int X)
    {
        return kind * 4 + i * 2 + X;
    }

    void enumerate_type(std::size_t ti, bool quick, int depth_main, int depth_rest)
    {
        const type_ops& t = g_types[ti];
        ++g_tot.types;
        // --- sweep: every object (counts x additional sizes around the exact fit), fixed life cycles
        static const unsigned q_n1[] = {0, 1, 3}, q_n2[] = {0, 1, 2}, t_n[] = {0, 1, 2, 3};
        const unsigned *      n1s = quick ? q_n1 : t_n, *n2s = quick ? q_n2 : t_n;
        int                   nn1 = quick ? 3 : 4, nn2 = quick ? 3 : 4;
        const int             sweeps[4][3] = {
            {code(K_CREATE, 0, 0), code(K_CLONE, 1, 1), -1},
            {code(K_CREATE, 0, 1), code(K_MOVEOBJ, 1, 0), -1},
            {code(K_CREATE, 1, 1), code(K_CLONE, 0, 0), OP_RESET + 1},
            {code(K_CREATE, 1, 0), code(K_MOVEOBJ, 0, 1), OP_NULL + 1},
        };
        for (int i1 = 0; i1 != nn1; ++i1)
            for (int i2 = 0; i2 != nn2; ++i2)
            {
                unsigned    n1 = n1s[i1], n2 = n2s[i2];
                std::size_t need[2] = {need_at(t, 0, n1, n2), need_at(t, 8, n1, n2)};
                std::vector<std::size_t> adds;
                auto                     push = [&](long v) {
                    if (v < 0)
                        return;
                    for (auto a : adds)
                        if (a == std::size_t(v))
                            return;
                    adds.push_back(std::size_t(v));
                };
                push(0);
                for (int k = 0; k != 2; ++k)
                {
                    for (long d = -15; d <= 15; ++d)
                        push(long(need[k]) + d);
                    push(long(need[k]) - long(t.s1));
                    push(long(need[k]) + long(t.s1));
                    push(long(need[k]) - long(t.s2));
                    push(long(need[k]) + long(t.s2));
                }
                push(long(need[0] > need[1] ? need[0] : need[1]) + 64);
                for (auto add : adds)
                {
                    ++g_tot.objects;
                    the_case c{ti, n1, n2, add, 0};
                    int      rel = add < need[0] ? 0 : add == need[0] ? 1 : 2;
                    c.cls        = 8 + (i1 * 4 + i2) * 3 + rel;
                    for (auto& sw : sweeps)
                    {
                        int  n = sw[2] < 0 ? 2 : 3;
                        bool skipped;
                        one(c, sw, n, &skipped);
                        ++g_tot.sweep_sequences;
                        if (g_tot.samples.size() < 2 && add == need[0] && n1 == 1 && n2 == 1)
                            g_tot.samples.push_back(case_json(c, sw, n));
                    }
                }
            }
        // --- histories: all operation sequences on representative objects
        struct rep
        {
            unsigned n1, n2;
            int      slack; // -1: additional size 0
            int      depth;
        };
        std::vector<rep> reps;
        reps.push_back(rep{2, 1, 0, depth_main});  // exact fit (for the block residue that needs more padding)
        reps.push_back(rep{1, 2, 24, depth_rest}); // generous
        if (!quick)
        {
            reps.push_back(rep{0, 0, -1, depth_rest}); // empty members, no additional memory at all
            reps.push_back(rep{3, 0, 0, depth_rest});  // only the first member
            reps.push_back(rep{0, 3, 1, depth_rest});  // only the second member, one spare byte
        }
        int cls = 0;
        for (auto& r : reps)
        {
            std::size_t n0 = need_at(t, 0, r.n1, r.n2), n8 = need_at(t, 8, r.n1, r.n2);
            std::size_t add = r.slack < 0 ? 0 : (n0 > n8 ? n0 : n8) + std::size_t(r.slack);
            the_case    c{ti, r.n1, r.n2, add, cls++};
            ++g_tot.objects;
            int ops[8];
            if (r.depth > g_tot.max_depth)
                g_tot.max_depth = r.depth;
            dfs(c, ops, 0, r.depth);
        }
    }

    //=== tiny parser for the replay input ===//
    long json_num(const char* js, const char* key, long def)
    {
        std::string k = std::string("\"") + key + "\"";
        const char* p = std::strstr(js, k.c_str());
        if (!p)
            return def;
        p = std::strchr(p + k.size(), ':');
        return p ? std::strtol(p + 1, nullptr, 10) : def;
    }
    std::string json_str(const char* js, const char* key)
    {
        std::string k = std::string("\"") + key + "\"";
        const char* p = std::strstr(js, k.c_str());
        if (!p)
            return "";
        p = std::strchr(p + k.size(), ':');
        if (!p)
            return "";
        p = std::strchr(p, '"');
        if (!p)
            return "";
        const char* e = std::strchr(p + 1, '"');
        return e ? std::string(p + 1, e) : "";
    }

    int replay(const char* js)
    {
        std::string tn = json_str(js, "type");
        std::size_t ti = NTYPES;
        for (std::size_t k = 0; k != NTYPES; ++k)
            if (type_name(k) == tn)
                ti = k;
        if (ti == NTYPES)
        {
            std::printf("unknown type '%s'\n", tn.c_str());
            return 2;
        }
        the_case c{ti, unsigned(json_num(js, "n1", 0)), unsigned(json_num(js, "n2", 0)), std::size_t(json_num(js, "add", 0)), 0};
        if (c.n1 >= MAXN || c.n2 >= MAXN)
        {
            std::printf("counts too large\n");
            return 2;
        }
        int         ops[64], n = 0;
        const char* p = std::strstr(js, "\"ops\"");
        if (p && (p = std::strchr(p, '[')))
        {
            ++p;
            while (*p && *p != ']' && n < 64)
            {
                char* e;
                long  v = std::strtol(p, &e, 10);
                if (e == p)
                    break;
                if (v < 0 || v >= NOPS)
                {
                    std::printf("bad operation code %ld\n", v);
                    return 2;
                }
                ops[n++] = int(v);
                p        = e;
                while (*p == ',' || *p == ' ')
                    ++p;
            }
        }
        const type_ops& t = g_types[ti];
        std::printf("joint type %s: layout %d (%s), member 1 elements %zu bytes align %zu, member 2 elements %zu bytes align %zu, "
                    "sizeof(T)=%zu alignof(T)=%zu\n",
                    tn.c_str(), t.layout,
                    t.layout == 0 ? "joint_array(size) + joint_array(range)" :
                    t.layout == 1 ? "joint_array(range) + vector(reserve, emplace_back)" :
                                    "vector(n) + joint_array(size, value)",
                    t.s1, t.a1, t.s2, t.a2, t.sizeofT, t.alignofT);
        std::printf("object: %u + %u elements, additional size %zu; upstream A places blocks at 0 (mod 16), upstream B at 8 (mod 16)\n",
                    c.n1, c.n2, c.add);
        std::string tag, detail;
        int         res = run_sequence(c, ops, n, true, &tag, &detail);
        if (res == RES_VIOLATION)
        {
            std::printf("VIOLATION [%s] %s\n", tag.c_str(), detail.c_str());
            return 1;
        }
        if (res == RES_HARNESS)
        {
            std::printf("HARNESS ERROR [%s] %s\n", tag.c_str(), detail.c_str());
            return 3;
        }
        std::printf(res == RES_SKIPPED ? "sequence ends with an operation outside the contract (skipped)\n" : "no violation\n");
        return 0;
    }

    void silent_oom(const fm::allocator_info&, std::size_t) noexcept {}
} // namespace

int main(int argc, char** argv)
{
    std::string tier = "quick", out, rep;
    long        part = 0, of = 1, depth = 0;
    for (int i = 1; i < argc; ++i)
    {
        std::string a = argv[i];
        auto        next = [&]() -> const char* { return i + 1 < argc ? argv[++i] : ""; };
        if (a == "--tier")
            tier = next();
        else if (a == "--out")
            out = next();
        else if (a == "--replay")
            rep = next();
        else if (a == "--part")
            part = std::atol(next());
        else if (a == "--of")
            of = std::atol(next());
        else if (a == "--depth")
            depth = std::atol(next());
    }
    fm::out_of_memory::set_handler(silent_oom);
    install_guards(2000);
    g_seen.assign(NTYPES * NCLS * NOPS * 36 * 3 / 8 + 8, 0);
    if (!rep.empty())
        return replay(rep.c_str());

    bool   quick = tier != "thorough";
    if (depth > 6)
        depth = 6;
    int    depth_main = depth > 0 ? int(depth) : (quick ? 3 : 4);
    int    depth_rest = depth_main > 3 ? 3 : depth_main;
    double t0 = now_s();
    if (of < 1)
        of = 1;
    for (std::size_t ti = 0; ti != NTYPES; ++ti)
        if (long(ti % std::size_t(of)) == part)
            enumerate_type(ti, quick, depth_main, depth_rest);
    double wall = now_s() - t0;

    jarr viol, herr, samples;
    for (auto& v : g_tot.viol)
        viol.raw(v);
    for (auto& e : g_tot.herr)
        herr.str(e);
    for (auto& s : g_tot.samples)
        samples.raw(s);
    jobj extra;
    extra.num("joint_types", (long long)g_tot.types)
        .num("objects", (long long)g_tot.objects)
        .num("sweep_sequences", (long long)g_tot.sweep_sequences)
        .num("history_sequences", (long long)g_tot.history_sequences)
        .num("history_depth", g_tot.max_depth)
        .num("history_alphabet", alphabet_size())
        .num("operations_executed", (long long)g_stats.ops)
        .num("allocating_operations", (long long)g_stats.allocating_ops)
        .num("creates_ok", (long long)g_stats.creates_ok)
        .num("creates_threw_out_of_fixed_memory", (long long)g_stats.creates_refused)
        .num("clones_ok", (long long)g_stats.clones_ok)
        .num("clones_threw_out_of_fixed_memory", (long long)g_stats.clones_refused)
        .num("clones_threw_with_same_block_alignment_as_source", (long long)g_stats.clones_refused_same_residue)
        .num("move_with_allocator_ok", (long long)g_stats.moveobj_ok)
        .num("move_with_allocator_threw", (long long)g_stats.moveobj_refused)
        .num("refused_only_because_of_alignment_padding", (long long)g_stats.refused_with_padding)
        .num("move_assignments_across_upstreams", (long long)g_stats.cross_upstream_assign)
        .num("objects_released", (long long)g_stats.releases)
        .num("element_constructions", (long long)g_elem_ctor)
        .num("element_destructions", (long long)g_elem_dtor)
        .num("sequences_ending_outside_contract", (long long)g_tot.skipped)
        .num("violating_sequences_total", (long long)g_tot.violations_total);
    std::string js =
        jobj()
            .num("evaluations", (long long)(g_tot.sequences - g_tot.skipped))
            .num("distinct_nontrivial", (long long)g_distinct)
            .str("rule",
                 "case = (joint type from 3 member layouts x 15x15 element (size,alignment) pairs; element counts; additional size; "
                 "operation sequence over two joint_ptr slots and two instrumented upstreams); sweep: every count pair x every "
                 "additional size in {0, exact fit -15..+15 bytes, +-1 element, generous} x 4 fixed life cycles (create, clone or "
                 "move-with-allocator across upstreams, destroy source first); histories: ALL sequences of the 25-operation alphabet "
                 "up to the stated depth on representative objects of every type. evaluations = sequences whose every step respected "
                 "the documented preconditions and was checked by the oracle; distinct_nontrivial = distinct (type, object class, "
                 "operation, ownership state of both slots before it, outcome ok/threw) tuples that reached the oracle")
            .raw("samples", samples.done())
            .boolean("exhaustive", true)
            .num("excluded", (long long)g_tot.skipped)
            .dbl("wall_s", wall)
            .raw("violations", viol.done())
            .raw("harness_errors", herr.done())
            .raw("extra", extra.done())
            .done();
    if (out.empty())
        std::printf("%s\n", js.c_str());
    else
    {
        FILE* f = std::fopen(out.c_str(), "w");
        if (!f)
            return 2;
        std::fputs(js.c_str(), f);
        std::fputc('\n', f);
        std::fclose(f);
    }
    return 0;
}
