// C12 (for the tracking adapter): moving a deeply tracked allocator transfers everything, the moved-from object
// is harmless.  deeply_tracked_allocator<Tracker, memory_pool<>/memory_stack<>> with a stateful tracker; all
// histories up to a depth bound over {grow, shrink_to_fit, move-construct, move-assign, swap, destroy, create}
// on three object slots.  Oracle: every block-level callback (on_allocator_growth / on_allocator_shrinking)
// arrives at the tracker sub-object of the CURRENT owner (and that tracker carries the owner's identity), none
// at a moved-from or destroyed tracker; the storage of destroyed objects is poisoned and must stay untouched.
// Self-contained: builds with vlib.build_harness("harness/h_deeptrack.cpp", cfg).
#include "../engine/core.hpp"

#include <foonathan/memory/memory_pool.hpp>
#include <foonathan/memory/memory_stack.hpp>
#include <foonathan/memory/tracking.hpp>

#include <new>
#include <unordered_set>
#include <utility>

using namespace verif;
namespace fm = foonathan::memory;

namespace
{
    struct cb_event
    {
        const void* self;
        int         id;
        bool        shrink;
    };
    cb_event CB[256];
    int      NCB = 0;

    struct trk
    {
        int      id;
        unsigned n_growth = 0, n_shrink = 0;
        explicit trk(int i) noexcept : id(i) {}
        trk(trk&& o) noexcept : id(o.id), n_growth(o.n_growth), n_shrink(o.n_shrink)
        {
            o.id = -1;
        }
        trk& operator=(trk&& o) noexcept
        {
            int t    = o.id;
            o.id     = -1;
            id       = t;
            n_growth = o.n_growth;
            n_shrink = o.n_shrink;
            return *this;
        }
        void note(bool shrink) noexcept
        {
            if (NCB < 256)
                CB[NCB++] = {this, id, shrink};
        }
        void on_node_allocation(void*, std::size_t, std::size_t) noexcept {}
        void on_array_allocation(void*, std::size_t, std::size_t, std::size_t) noexcept {}
        void on_node_deallocation(void*, std::size_t, std::size_t) noexcept {}
        void on_array_deallocation(void*, std::size_t, std::size_t, std::size_t) noexcept {}
        void on_allocator_growth(void*, std::size_t) noexcept
        {
            ++n_growth;
            note(false);
        }
        void on_allocator_shrinking(void*, std::size_t) noexcept
        {
            ++n_shrink;
            note(true);
        }
    };

    constexpr int         NSLOT = 3;
    constexpr std::size_t SLOTSZ = 1024;
    alignas(64) unsigned char SLOT[NSLOT][SLOTSZ];
    enum slot_state
    {
        EMPTY,
        LIVE,
        MOVED
    };

    struct pool_sys
    {
        using raw  = fm::memory_pool<>;
        using type = fm::deeply_tracked_allocator<trk, raw>;
        static const char* name()
        {
            return "deeply_tracked_allocator<tracker, memory_pool<>>";
        }
        static void create(void* where, int id)
        {
            ::new (where) type(fm::make_deeply_tracked_allocator<raw>(trk(id), std::size_t(16), std::size_t(200)));
        }
        static void remember(type&, int) {}
        static void grow(type& a)
        {
            auto& p = a.get_allocator();
            while (p.capacity_left() >= p.node_size())
                p.allocate_node();
            p.allocate_node(); // needs a new block
        }
        static bool can_shrink()
        {
            return false;
        }
        static void shrink(type&, int) {}
    };
    struct stack_sys
    {
        using raw  = fm::memory_stack<>;
        using type = fm::deeply_tracked_allocator<trk, raw>;
        using marker = raw::marker;
        alignas(16) static unsigned char bottom[64][sizeof(marker)];
        static const char* name()
        {
            return "deeply_tracked_allocator<tracker, memory_stack<>>";
        }
        static void create(void* where, int id)
        {
            // make_deeply_tracked_allocator<memory_stack<>> does not compile (it list-initialises the allocator,
            // memory_stack's constructor is explicit): construct the same type directly
            ::new (where) type(trk(id), typename type::allocator_type(std::size_t(256)));
        }
        static void remember(type& a, int id)
        {
            ::new (static_cast<void*>(bottom[id & 63])) marker(a.get_allocator().top());
        }
        static void grow(type& a)
        {
            auto& s = a.get_allocator();
            s.allocate(s.capacity_left() + 1, 1); // does not fit the current block
        }
        static bool can_shrink()
        {
            return true;
        }
        static void shrink(type& a, int id)
        {
            auto& s = a.get_allocator();
            s.unwind(*reinterpret_cast<marker*>(bottom[id & 63]));
            s.shrink_to_fit();
        }
    };
    alignas(16) unsigned char stack_sys::bottom[64][sizeof(stack_sys::marker)];

    struct dop
    {
        char k; // g grow, h shrink, m move-construct s->t, a move-assign s->t, s swap, d destroy, c create
        int  s, t;
    };
    std::string ops_str(const dop* o, int n)
    {
        std::string r;
        for (int i = 0; i < n; ++i)
        {
            r += i ? "," : "";
            r += o[i].k;
            r += char('0' + o[i].s);
            if (o[i].k == 'm' || o[i].k == 'a' || o[i].k == 's')
                r += char('0' + o[i].t);
        }
        return r;
    }
    std::string op_text(const dop& o)
    {
        switch (o.k)
        {
        case 'g':
            return fmt("grow the arena of slot %d", o.s);
        case 'h':
            return fmt("unwind + shrink_to_fit slot %d", o.s);
        case 'm':
            return fmt("move-construct slot %d from slot %d", o.t, o.s);
        case 'a':
            return fmt("slot %d = std::move(slot %d)", o.t, o.s);
        case 's':
            return fmt("std::swap(slot %d, slot %d)", o.s, o.t);
        case 'd':
            return fmt("destroy slot %d and poison its storage", o.s);
        case 'c':
            return fmt("create a new allocator in slot %d", o.s);
        }
        return "?";
    }

    struct verdict
    {
        bool        viol = false;
        std::string tag, detail;
        void        set(const std::string& t, const std::string& d)
        {
            if (!viol)
                viol = true, tag = t, detail = d;
        }
    };

    struct model
    {
        int st[NSLOT];
        int ident[NSLOT];
        int grown[64];
        int next_id;
    };
    bool VERBOSE = false;

    int slot_of(const void* p)
    {
        auto c = static_cast<const unsigned char*>(p);
        for (int k = 0; k < NSLOT; ++k)
            if (c >= SLOT[k] && c < SLOT[k] + SLOTSZ)
                return k;
        return -1;
    }
    bool poison_intact(int k)
    {
        for (std::size_t i = 0; i < SLOTSZ; ++i)
            if (SLOT[k][i] != 0xEE)
                return false;
        return true;
    }

    template <class S>
    typename S::type& obj(int k)
    {
        return *reinterpret_cast<typename S::type*>(SLOT[k]);
    }

    // callbacks of one operation: allowed receivers are the slots a / b (b = -1: only a); for grow/shrink the
    // receiver must carry the owner's identity
    void check_callbacks(verdict& v, const model& before, const model& after, const dop& o, int a, int b,
                         int want_id, int need_growth, int need_shrink, const std::string& what)
    {
        int growth = 0, shrink = 0;
        for (int i = 0; i < NCB; ++i)
        {
            const cb_event& e = CB[i];
            int             k = slot_of(e.self);
            const char*     kind = e.shrink ? "on_allocator_shrinking" : "on_allocator_growth";
            if (VERBOSE)
                std::printf("      %s at tracker in slot %d (tracker id %d)\n", kind, k, e.id);
            if (k < 0)
                v.set("block-callback-at-unknown-tracker", what + ": " + kind + " called on a tracker outside every object slot");
            else if (k != a && k != b)
            {
                int s = after.st[k];
                v.set(s == EMPTY ? "block-callback-at-destroyed-tracker" :
                      s == MOVED ? "block-callback-at-moved-from-tracker" :
                                   "block-callback-at-wrong-tracker",
                      what + fmt(": %s arrived at the tracker of slot %d (%s), the arena belongs to slot %d", kind, k,
                                 s == EMPTY ? "destroyed, storage poisoned" : s == MOVED ? "moved-from" : "another live allocator", a));
            }
            else if (want_id >= 0 && e.id != want_id)
                v.set("tracker-state-not-transferred",
                      what + fmt(": %s arrived in slot %d but the tracker there has id %d, the owner's tracker has id %d",
                                 kind, k, e.id, want_id));
            (e.shrink ? shrink : growth)++;
        }
        if (growth < need_growth)
            v.set("block-callback-missing", what + ": the arena grew but the owner's tracker saw no on_allocator_growth");
        if (shrink < need_shrink)
            v.set("block-callback-missing", what + ": blocks were released but the owner's tracker saw no on_allocator_shrinking");
        (void)before;
        (void)o;
    }

    template <class S>
    void body(const dop* ops, int n, verdict& v, u64& key)
    {
        using A = typename S::type;
        static_assert(sizeof(A) <= SLOTSZ && alignof(A) <= 64, "slot too small");
        model m{};
        for (int k = 0; k < NSLOT; ++k)
        {
            std::memset(SLOT[k], 0xEE, SLOTSZ);
            m.st[k] = EMPTY;
        }
        m.next_id = 1;
        hasher h;
        auto   create = [&](int k) {
            int id = m.next_id++;
            S::create(SLOT[k], id);
            S::remember(obj<S>(k), id);
            m.st[k]    = LIVE;
            m.ident[k] = id;
            m.grown[id & 63] = 0;
        };
        NCB = 0;
        create(0);
        create(1);
        for (int i = 0; i < n && !v.viol; ++i)
        {
            const dop& o      = ops[i];
            model      before = m;
            NCB               = 0;
            std::string what  = fmt("op %d (%s)", i, op_text(o).c_str());
            if (VERBOSE)
                std::printf("    %s\n", what.c_str());
            switch (o.k)
            {
            case 'c':
                create(o.s);
                check_callbacks(v, before, m, o, o.s, -1, -1, 0, 0, what);
                break;
            case 'g':
                S::grow(obj<S>(o.s));
                ++m.grown[m.ident[o.s] & 63];
                check_callbacks(v, before, m, o, o.s, -1, m.ident[o.s], 1, 0, what);
                break;
            case 'h':
            {
                int had = m.grown[m.ident[o.s] & 63];
                S::shrink(obj<S>(o.s), m.ident[o.s]);
                m.grown[m.ident[o.s] & 63] = 0;
                check_callbacks(v, before, m, o, o.s, -1, m.ident[o.s], 0, had ? 1 : 0, what);
                break;
            }
            case 'm':
                ::new (static_cast<void*>(SLOT[o.t])) A(std::move(obj<S>(o.s)));
                m.st[o.t]    = LIVE;
                m.ident[o.t] = m.ident[o.s];
                m.st[o.s]    = MOVED;
                check_callbacks(v, before, m, o, o.t, o.s, -1, 0, 0, what);
                break;
            case 'a':
                obj<S>(o.t)  = std::move(obj<S>(o.s));
                m.st[o.t]    = LIVE;
                m.ident[o.t] = m.ident[o.s];
                m.st[o.s]    = MOVED;
                check_callbacks(v, before, m, o, o.t, o.s, -1, 0, 0, what);
                break;
            case 's':
            {
                using std::swap;
                swap(obj<S>(o.s), obj<S>(o.t));
                std::swap(m.ident[o.s], m.ident[o.t]);
                check_callbacks(v, before, m, o, o.s, o.t, -1, 0, 0, what);
                break;
            }
            case 'd':
                obj<S>(o.s).~A();
                m.st[o.s] = EMPTY;
                check_callbacks(v, before, m, o, o.s, -1, -1, 0, 0, what);
                std::memset(SLOT[o.s], 0xEE, SLOTSZ);
                break;
            }
            h.word(u64(o.k) * 64 + NCB);
            for (int k = 0; k < NSLOT; ++k)
                if (m.st[k] == EMPTY && !poison_intact(k))
                {
                    v.set("destroyed-tracker-storage-written",
                          what + fmt(": the poisoned storage of the destroyed object in slot %d was written", k));
                    std::memset(SLOT[k], 0xEE, SLOTSZ);
                }
                else if (m.st[k] == LIVE && reinterpret_cast<A*>(SLOT[k])->get_tracker().id != m.ident[k])
                    v.set("tracker-state-not-transferred",
                          what + fmt(": the tracker of the live allocator in slot %d has id %d, expected %d", k,
                                     reinterpret_cast<A*>(SLOT[k])->get_tracker().id, m.ident[k]));
        }
        // tear down: no callbacks may reach dead storage here either
        for (int k = 0; k < NSLOT; ++k)
            if (m.st[k] != EMPTY)
            {
                NCB = 0;
                obj<S>(k).~A();
                m.st[k] = EMPTY;
                for (int i = 0; i < NCB; ++i)
                    if (slot_of(CB[i].self) != k)
                        v.set("block-callback-at-wrong-tracker",
                              fmt("final destruction of slot %d: a block callback arrived at slot %d", k, slot_of(CB[i].self)));
                std::memset(SLOT[k], 0xEE, SLOTSZ);
                for (int q = 0; q < NSLOT; ++q)
                    if (m.st[q] == EMPTY && !poison_intact(q))
                    {
                        v.set("destroyed-tracker-storage-written",
                              fmt("final destruction of slot %d wrote into the poisoned storage of slot %d", k, q));
                        std::memset(SLOT[q], 0xEE, SLOTSZ);
                    }
            }
        key = h.get().a;
    }

    verdict run(char kind, const dop* ops, int n, u64& key)
    {
        verdict v;
        int     out = OUT_OK;
        key         = 0;
        VERIF_GUARDED(out, {
            if (kind == 'p')
                body<pool_sys>(ops, n, v, key);
            else
                body<stack_sys>(ops, n, v, key);
        });
        if (out != OUT_OK)
        {
            v.viol = false;
            v.set(std::string("moved-allocator-") + outcome_name(out),
                  std::string("history ") + ops_str(ops, n) + " " + outcome_name(out) + " inside the library");
            key = 0xDEAD0000 + out;
        }
        return v;
    }

    struct results
    {
        long                     evals = 0;
        std::unordered_set<u64>  classes;
        jarr                     viol, samples;
        std::vector<std::string> tags;
        std::vector<long>        counts;
    } R;

    void dfs(char kind, bool can_shrink, dop* seq, int depth, int maxdepth, int* st)
    {
        if (depth == maxdepth)
            return;
        auto step = [&](dop o, int s0, int s1, int s2) {
            int nst[3] = {s0, s1, s2};
            seq[depth] = o;
            u64     key;
            verdict v = run(kind, seq, depth + 1, key);
            ++R.evals;
            R.classes.insert(key ^ (u64(kind) << 56));
            if (v.viol)
            {
                u64     k2;
                verdict v2 = run(kind, seq, depth + 1, k2);
                if (v2.viol && v2.tag == v.tag)
                {
                    std::size_t i = 0;
                    while (i < R.tags.size() && R.tags[i] != v.tag)
                        ++i;
                    if (i == R.tags.size())
                        R.tags.push_back(v.tag), R.counts.push_back(0);
                    if (++R.counts[i] <= 3)
                        R.viol.raw(jobj().str("tag", v.tag).str("detail", v.detail)
                                       .str("input", std::string(1, kind) + ":" + ops_str(seq, depth + 1)).done());
                }
                return; // do not extend a violating history
            }
            if (R.evals % 4001 == 1)
                R.samples.str(std::string(1, kind) + ":" + ops_str(seq, depth + 1));
            dfs(kind, can_shrink, seq, depth + 1, maxdepth, nst);
        };
        for (int s = 0; s < NSLOT; ++s)
        {
            int n[3] = {st[0], st[1], st[2]};
            if (st[s] == LIVE)
            {
                step({'g', s, 0}, n[0], n[1], n[2]);
                if (can_shrink)
                    step({'h', s, 0}, n[0], n[1], n[2]);
                for (int t = 0; t < NSLOT; ++t)
                {
                    if (t == s)
                        continue;
                    int q[3] = {st[0], st[1], st[2]};
                    q[s]     = MOVED;
                    q[t]     = LIVE;
                    if (st[t] == EMPTY)
                        step({'m', s, t}, q[0], q[1], q[2]);
                    else
                        step({'a', s, t}, q[0], q[1], q[2]);
                    if (st[t] == LIVE && s < t)
                        step({'s', s, t}, n[0], n[1], n[2]);
                }
            }
            if (st[s] != EMPTY)
            {
                int q[3] = {st[0], st[1], st[2]};
                q[s]     = EMPTY;
                step({'d', s, 0}, q[0], q[1], q[2]);
            }
            else
            {
                int q[3] = {st[0], st[1], st[2]};
                q[s]     = LIVE;
                step({'c', s, 0}, q[0], q[1], q[2]);
            }
        }
    }
} // namespace

int main(int argc, char** argv)
{
    std::string tier = "quick", out, replay_in;
    for (int i = 1; i < argc; ++i)
    {
        std::string a    = argv[i];
        auto        next = [&]() -> std::string { return i + 1 < argc ? argv[++i] : ""; };
        if (a == "--tier")
            tier = next();
        else if (a == "--out")
            out = next();
        else if (a == "--replay")
            replay_in = next();
    }
    setvbuf(stdout, nullptr, _IOLBF, 0);
    install_guards(4000);
    if (!replay_in.empty())
    {
        while (!replay_in.empty() && (replay_in.front() == '"' || replay_in.front() == ' '))
            replay_in.erase(replay_in.begin());
        while (!replay_in.empty() && (replay_in.back() == '"' || replay_in.back() == ' '))
            replay_in.pop_back();
        if (replay_in.size() < 2 || replay_in[1] != ':' || (replay_in[0] != 'p' && replay_in[0] != 's'))
        {
            std::printf("cannot parse '%s' (p|s:op,op,...)\n", replay_in.c_str());
            return 2;
        }
        std::vector<dop> ops;
        std::size_t      i = 2;
        while (i < replay_in.size())
        {
            dop o{replay_in[i], 0, 0};
            if (i + 1 < replay_in.size())
                o.s = replay_in[i + 1] - '0';
            i += 2;
            if (o.k == 'm' || o.k == 'a' || o.k == 's')
            {
                o.t = i < replay_in.size() ? replay_in[i] - '0' : 0;
                ++i;
            }
            if (i < replay_in.size() && replay_in[i] == ',')
                ++i;
            if (o.s < 0 || o.s >= NSLOT || o.t < 0 || o.t >= NSLOT)
                return 2;
            ops.push_back(o);
        }
        VERBOSE = true;
        std::printf("%s; slots 0 and 1 hold allocators with tracker ids 1 and 2, slot 2 is empty\n",
                    replay_in[0] == 'p' ? pool_sys::name() : stack_sys::name());
        u64     key;
        verdict v = run(replay_in[0], ops.data(), int(ops.size()), key);
        if (v.viol)
        {
            std::printf("VIOLATION [%s] %s\n", v.tag.c_str(), v.detail.c_str());
            return 1;
        }
        std::printf("no violation\n");
        return 0;
    }
    double t0       = now_s();
    int    maxdepth = tier == "thorough" ? 6 : 5;
    dop    seq[16];
    for (char kind : {'p', 's'})
    {
        int st[3] = {LIVE, LIVE, EMPTY};
        dfs(kind, kind == 's', seq, 0, maxdepth, st);
    }
    jobj tagc;
    for (std::size_t i = 0; i < R.tags.size(); ++i)
        tagc.num(R.tags[i], R.counts[i]);
    jobj o;
    o.num("evaluations", R.evals)
        .num("distinct_nontrivial", (long long)R.classes.size())
        .str("rule", "deeply_tracked_allocator over memory_pool<> and memory_stack<>, three object slots (two live): every "
                     "history of length 1.." + std::to_string(maxdepth)
                         + " over {grow, unwind+shrink_to_fit, move-construct, move-assign, swap, destroy (storage "
                           "poisoned), create}; class = sequence of (operation, number of block callbacks)")
        .raw("samples", R.samples.done())
        .boolean("exhaustive", true)
        .num("excluded", 0)
        .dbl("wall_s", now_s() - t0)
        .raw("violations", R.viol.done())
        .raw("harness_errors", "[]")
        .raw("extra", jobj().raw("violations_per_tag", tagc.done()).done());
    std::string js = o.done();
    if (!out.empty())
    {
        FILE* f = std::fopen(out.c_str(), "w");
        if (!f)
            return 2;
        std::fputs(js.c_str(), f);
        std::fputc('\n', f);
        std::fclose(f);
    }
    else
        std::printf("%s\n", js.c_str());
    return 0;
}
