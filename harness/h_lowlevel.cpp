// Low-level allocators (heap_allocator, malloc_allocator, new_allocator, virtual_memory_allocator) through
// allocator_traits:
//  --mode dfs  : all sequences up to a depth over {allocate_node / allocate_array of a few shapes, release of any live
//                allocation}: results non-null, aligned, pairwise disjoint, content preserved until release (C01/C02)
//  --mode leak : for every multiset of <= 3 allocations and every subset released, a forked child runs the history and
//                exits normally; the leak handler must fire exactly once per allocator with the exact net, or not at
//                all when balanced (C15, "stateless low-level allocators report their process-wide net once at exit")
#include "../engine/core.hpp"

#include <foonathan/memory/allocator_traits.hpp>
#include <foonathan/memory/debugging.hpp>
#include <foonathan/memory/heap_allocator.hpp>
#include <foonathan/memory/malloc_allocator.hpp>
#include <foonathan/memory/new_allocator.hpp>
#include <foonathan/memory/virtual_memory.hpp>

#include <cerrno>
#include <map>
#include <set>
#include <sys/wait.h>

using namespace verif;
namespace fm = foonathan::memory;

// A static-duration object that holds low-level memory for the whole run and gives it back in its destructor. It is
// constructed AFTER this TU's leak counter objects (they are defined by the headers above) and BEFORE the counters of the
// library's TUs (linked behind this one), so it is destroyed after some counters and before the last one: the process-wide
// net must be evaluated when the LAST counter goes away, when this memory is back (C15, stateless allocators).
struct static_holder
{
    void *h, *m, *n;
    static_holder()
    {
        h = fm::heap_allocator().allocate_node(100, 8);
        m = fm::malloc_allocator().allocate_node(72, 8);
        n = fm::new_allocator().allocate_node(40, 8);
    }
    ~static_holder()
    {
        fm::heap_allocator().deallocate_node(h, 100, 8);
        fm::malloc_allocator().deallocate_node(m, 72, 8);
        fm::new_allocator().deallocate_node(n, 40, 8);
    }
};
static static_holder g_static_holder;

constexpr bool        cfg_fill  = FOONATHAN_MEMORY_DEBUG_FILL;
constexpr bool        cfg_leak  = FOONATHAN_MEMORY_DEBUG_LEAK_CHECK;
constexpr std::size_t cfg_fence = FOONATHAN_MEMORY_DEBUG_FENCE;

struct shape
{
    int         kind; // 0 node, 1 array
    std::size_t count, size, align;
};
static const shape SHAPES[] = {{0, 1, 1, 1}, {0, 1, 24, 8}, {0, 1, 40, 16}, {1, 3, 8, 8}, {1, 1, 5, 1}};
constexpr int      NSHAPES  = 5;

struct live
{
    unsigned char* p;
    int            sh;
};

struct result
{
    long sequences = 0, steps = 0;
    std::set<std::string>    classes;
    std::vector<std::string> samples, vio;
    std::set<std::string>    tags;
};

static void add_vio(result& r, const std::string& tag, const std::string& detail, const std::string& input)
{
    if (!r.tags.insert(tag).second)
        return;
    jobj v;
    v.str("tag", tag).str("detail", detail).raw("input", input);
    r.vio.push_back(v.done());
}

template <class A>
static std::string run_seq(const char* an, const std::vector<int>& ops, bool verbose)
{
    using traits = fm::allocator_traits<A>;
    A                 alloc;
    std::vector<live> lv;
    std::string       verdict;
    for (auto op : ops)
    {
        if (op < NSHAPES)
        {
            const shape& s = SHAPES[op];
            void*        p = nullptr;
            int          oc;
            VERIF_GUARDED(oc, {
                p = s.kind ? traits::allocate_array(alloc, s.count, s.size, s.align) : traits::allocate_node(alloc, s.size, s.align);
            });
            if (oc != OUT_OK)
            {
                verdict = fmt("%s-alloc|%s allocation %s", outcome_name(oc), an, outcome_name(oc));
                break;
            }
            std::size_t bytes = s.count * s.size;
            auto        c     = static_cast<unsigned char*>(p);
            if (verbose)
                std::printf("  %s(%zu,%zu,%zu) -> %p\n", s.kind ? "allocate_array" : "allocate_node", s.count, s.size, s.align, p);
            if (!p)
            {
                verdict = "null|throwing allocation returned null";
                break;
            }
            if (reinterpret_cast<std::uintptr_t>(p) % s.align)
            {
                verdict = fmt("misaligned|pointer %p not aligned to %zu", p, s.align);
                break;
            }
            for (auto& l : lv)
            {
                std::size_t lb = SHAPES[l.sh].count * SHAPES[l.sh].size;
                if (c < l.p + lb && l.p < c + bytes)
                    verdict = "overlap|returned range overlaps a live allocation";
            }
            if (!verdict.empty())
                break;
            if (cfg_fill)
                for (std::size_t i = 0; i < bytes; ++i)
                    if (c[i] != 0xCD)
                    {
                        verdict = fmt("fill-new|byte %zu of fresh memory is 0x%02X", i, c[i]);
                        break;
                    }
            if (!verdict.empty())
                break;
            for (std::size_t i = 0; i < bytes; ++i)
                c[i] = (unsigned char)(0x30 + op * 7 + i);
            lv.push_back({c, op});
        }
        else
        {
            std::size_t k = std::size_t(op - NSHAPES);
            if (k >= lv.size())
            {
                verdict = "harness|bad index";
                break;
            }
            auto         l = lv[k];
            const shape& s = SHAPES[l.sh];
            for (std::size_t i = 0; i < s.count * s.size; ++i)
                if (l.p[i] != (unsigned char)(0x30 + l.sh * 7 + i))
                {
                    verdict = fmt("content|byte %zu of a live allocation changed", i);
                    break;
                }
            if (!verdict.empty())
                break;
            lv.erase(lv.begin() + long(k));
            int oc;
            VERIF_GUARDED(oc, {
                if (s.kind)
                    traits::deallocate_array(alloc, l.p, s.count, s.size, s.align);
                else
                    traits::deallocate_node(alloc, l.p, s.size, s.align);
            });
            if (verbose)
                std::printf("  release #%zu -> %s\n", k, outcome_name(oc));
            if (oc != OUT_OK)
            {
                verdict = fmt("%s-dealloc|%s deallocation %s", outcome_name(oc), an, outcome_name(oc));
                break;
            }
        }
    }
    // clean up
    for (auto& l : lv)
    {
        const shape& s = SHAPES[l.sh];
        int          oc;
        VERIF_GUARDED(oc, {
            if (s.kind)
                traits::deallocate_array(alloc, l.p, s.count, s.size, s.align);
            else
                traits::deallocate_node(alloc, l.p, s.size, s.align);
        });
    }
    return verdict;
}

template <class A>
static void dfs(const char* an, std::vector<int>& ops, int nlive, int depth, result& r)
{
    if (!ops.empty())
    {
        ++r.sequences;
        r.steps += long(ops.size());
        std::string v = run_seq<A>(an, ops, false);
        std::string cls = std::string(an) + ":" + std::to_string(ops.size()) + ":" + std::to_string(nlive);
        r.classes.insert(cls);
        if (r.samples.size() < 4 && ops.size() == 4 && r.sequences % 53 == 0)
        {
            std::string s = an;
            for (auto o : ops)
                s += " " + std::to_string(o);
            r.samples.push_back(s);
        }
        if (!v.empty())
        {
            std::string v2 = run_seq<A>(an, ops, false);
            auto        bar = v.find('|');
            jarr        in;
            for (auto o : ops)
                in.raw(std::to_string(o));
            jobj input;
            input.str("mode", "dfs").str("alloc", an).raw("ops", in.done());
            add_vio(r, std::string(an) + "/" + v.substr(0, bar), v.substr(bar + 1) + (v2 == v ? "" : " (not reproduced)"), input.done());
            return;
        }
    }
    if (depth == 0)
        return;
    for (int op = 0; op < NSHAPES + nlive; ++op)
    {
        ops.push_back(op);
        dfs<A>(an, ops, op < NSHAPES ? nlive + 1 : nlive - 1, depth - 1, r);
        ops.pop_back();
    }
}


//=== failure injection for --mode fail ===//
#include <new>
#include <sys/mman.h>
static volatile int g_fail_armed = 0; // fail the next allocation primitive
static volatile int g_fail_hits  = 0;
extern "C" void* __real_malloc(size_t);
extern "C" void* __wrap_malloc(size_t n)
{
    if (g_fail_armed)
    {
        g_fail_armed = 0;
        ++g_fail_hits;
        return nullptr;
    }
    return __real_malloc(n);
}
static volatile int g_fail_persist = 0; // operator new keeps failing until something disarms it (new-handler cases)
void* operator new(std::size_t n, const std::nothrow_t&) noexcept
{
    if (g_fail_armed)
    {
        if (!g_fail_persist)
            g_fail_armed = 0;
        ++g_fail_hits;
        return nullptr;
    }
    return __real_malloc(n ? n : 1);
}
extern "C" void* __real_mmap(void*, size_t, int, int, int, off_t);
extern "C" void* __wrap_mmap(void* addr, size_t len, int prot, int flags, int fd, off_t off)
{
    if (g_fail_armed == 1 && prot == PROT_NONE)
    {
        g_fail_armed = 0;
        ++g_fail_hits;
        return MAP_FAILED;
    }
    return __real_mmap(addr, len, prot, flags, fd, off);
}
extern "C" int __real_mprotect(void*, size_t, int);
extern "C" int __wrap_mprotect(void* p, size_t len, int prot)
{
    if (g_fail_armed == 2 && prot != PROT_NONE)
    {
        g_fail_armed = 0;
        ++g_fail_hits;
        return -1;
    }
    return __real_mprotect(p, len, prot);
}

static int g_oom_handler = 0;
static void h_oom(const fm::allocator_info&, std::size_t) noexcept
{
    ++g_oom_handler;
}

// new-handler behaviours for new_allocator (arm 3..5): the retry protocol must ask for the CURRENTLY installed handler each round
static int  g_nh_calls = 0;
static void nh_uninstall() // gives up by uninstalling itself: the request must then fail with out_of_memory
{
    ++g_nh_calls;
    std::set_new_handler(nullptr);
}
static void nh_throwing()
{
    ++g_nh_calls;
    throw std::bad_alloc();
}
static void nh_pass_on() // passes on to another handler, which gives up by throwing
{
    ++g_nh_calls;
    std::set_new_handler(nh_throwing);
}
static void nh_frees() // "frees memory": the next attempt succeeds
{
    ++g_nh_calls;
    g_fail_armed = 0;
}

// process-wide leak balance of a stateless allocator type (0 where leak checking is compiled out)
template <class A, class = void>
struct balance_of
{
    static std::ptrdiff_t get()
    {
        return 0;
    }
};
template <class A>
struct balance_of<A, decltype(void(A::allocated_))>
{
    static std::ptrdiff_t get()
    {
        return std::ptrdiff_t(A::allocated_);
    }
};

// one case: arm a failure of the allocation primitive, request `shape`: must throw something derived from std::bad_alloc
// of the out_of_memory family with the handler called first; never null; the allocator must be usable afterwards
template <class A>
static std::string fail_case(const char* an, int sh, int arm, bool verbose)
{
    using traits = fm::allocator_traits<A>;
    A            alloc;
    const shape& s = SHAPES[sh];
    fm::out_of_memory::set_handler(h_oom);
    g_oom_handler = 0;
    g_fail_hits   = 0;
    void* p       = nullptr;
    int   ex      = 0; // 1 out_of_memory, 2 other bad_alloc, 3 other
    int   oc;
    int   nh = arm >= 3 ? arm - 2 : 0; // 1 uninstalls itself, 2 passes on to a throwing handler, 3 frees memory
    if (nh && !std::is_same<A, fm::new_allocator>::value)
        return "SKIP";
    g_nh_calls     = 0;
    g_fail_persist = nh != 0;
    std::ptrdiff_t balance_before = balance_of<A>::get();
    if (nh)
        std::set_new_handler(nh == 1 ? nh_uninstall : nh == 2 ? nh_pass_on : nh_frees);
    g_fail_armed = nh ? 1 : arm;
    VERIF_GUARDED(oc, {
        try
        {
            p = s.kind ? traits::allocate_array(alloc, s.count, s.size, s.align) : traits::allocate_node(alloc, s.size, s.align);
        }
        catch (fm::out_of_memory&)
        {
            ex = 1;
        }
        catch (std::bad_alloc&)
        {
            ex = 2;
        }
        catch (...)
        {
            ex = 3;
        }
    });
    g_fail_armed   = 0;
    g_fail_persist = 0;
    std::set_new_handler(nullptr);
    if (verbose)
        std::printf("  %s shape %d arm %d -> outcome %s, exception class %d, pointer %p, primitive failed %d time(s), handler %d, new-handler calls %d\n", an, sh, arm,
                    outcome_name(oc), ex, p, g_fail_hits, g_oom_handler, g_nh_calls);
    if (oc != OUT_OK)
        return fmt("fail-%s|%s when the underlying allocation failed%s", outcome_name(oc), outcome_name(oc),
                   nh ? " persistently with a new-handler installed that gives up" : "");
    if (nh == 3)
    {
        // the handler made memory available: the request must succeed after exactly one handler call
        if (!p || ex || g_nh_calls != 1)
            return fmt("fail-handler-retry|new-handler freed memory but the request did not succeed on the retry (pointer %p, exception class %d, %d handler calls)", p, ex, g_nh_calls);
        if (s.kind)
            traits::deallocate_array(alloc, p, s.count, s.size, s.align);
        else
            traits::deallocate_node(alloc, p, s.size, s.align);
        return "";
    }
    if (nh && g_nh_calls != nh)
        return fmt("fail-handler-protocol|%d new-handler calls, expected %d (each round must use the currently installed handler)", g_nh_calls, nh);
    if (g_fail_hits == 0)
    {
        // the primitive was not reached (e.g. arm 2 on a non virtual allocator): not a fault case
        if (p)
        {
            if (s.kind)
                traits::deallocate_array(alloc, p, s.count, s.size, s.align);
            else
                traits::deallocate_node(alloc, p, s.size, s.align);
        }
        return "SKIP";
    }
    if (ex == 0 && !p)
        return "fail-null|the throwing allocation function returned null when the underlying allocation failed";
    if (ex == 0)
        return "fail-absorbed|the underlying allocation failed but the call returned a pointer";
    if (ex != 1)
        return "fail-wrong-exception|failure of the underlying allocation was not signalled by the out_of_memory family";
    if (g_oom_handler == 0)
        return "fail-no-handler|out_of_memory thrown without calling its handler first";
    // the failure is not absorbed into the allocator's state either: nothing was obtained, so nothing is booked
    if (balance_of<A>::get() != balance_before)
        return fmt("fail-booked|a request that failed and obtained nothing changed the allocator's process-wide leak balance by %td bytes",
                   balance_of<A>::get() - balance_before);
    // usable afterwards
    void* q = nullptr;
    VERIF_GUARDED(oc, { q = traits::allocate_node(alloc, 24, 8); });
    if (oc != OUT_OK || !q)
        return "fail-unusable|allocator unusable after a failed request";
    traits::deallocate_node(alloc, q, 24, 8);
    return "";
}

//=== leak at exit ===//
static int g_pipe = -1;
static void leak_to_pipe(const fm::allocator_info& info, std::ptrdiff_t amount)
{
    char buf[160];
    int  n = std::snprintf(buf, sizeof buf, "%s %ld\n", info.name, long(amount));
    if (g_pipe >= 0)
        (void)!write(g_pipe, buf, std::size_t(n));
}

template <class A>
static void child_body(const std::vector<int>& shapes, unsigned release_mask)
{
    using traits = fm::allocator_traits<A>;
    A                  alloc;
    std::vector<void*> ps;
    for (auto sh : shapes)
    {
        const shape& s = SHAPES[sh];
        ps.push_back(s.kind ? traits::allocate_array(alloc, s.count, s.size, s.align) : traits::allocate_node(alloc, s.size, s.align));
    }
    for (std::size_t i = 0; i < shapes.size(); ++i)
        if (release_mask & (1u << i))
        {
            const shape& s = SHAPES[shapes[i]];
            if (s.kind)
                traits::deallocate_array(alloc, ps[i], s.count, s.size, s.align);
            else
                traits::deallocate_node(alloc, ps[i], s.size, s.align);
        }
}

static int  g_child_alloc = -1;
static std::vector<int> g_child_shapes;
static unsigned         g_child_mask = 0;

static void run_child_and_exit()
{
    switch (g_child_alloc)
    {
    case 0:
        child_body<fm::heap_allocator>(g_child_shapes, g_child_mask);
        break;
    case 1:
        child_body<fm::malloc_allocator>(g_child_shapes, g_child_mask);
        break;
    case 2:
        child_body<fm::new_allocator>(g_child_shapes, g_child_mask);
        break;
    default:
        child_body<fm::virtual_memory_allocator>(g_child_shapes, g_child_mask);
        break;
    }
}

static const char* ANAME[] = {"heap_allocator", "malloc_allocator", "new_allocator", "virtual_memory_allocator"};

static long expected_net(int a, const std::vector<int>& shapes, unsigned mask)
{
    long net = 0;
    for (std::size_t i = 0; i < shapes.size(); ++i)
        if (!(mask & (1u << i)))
        {
            const shape& s     = SHAPES[shapes[i]];
            long         bytes = long(s.count * s.size);
            if (a < 3)
                bytes += cfg_fence ? 32 : 0; // two max_alignment fences are part of what the allocator obtained
            net += bytes;
        }
    return net;
}

// returns "" or tag|detail; main() forks: the child returns from main so that static destructors run
static bool g_is_child = false;

static std::string leak_case(int a, const std::vector<int>& shapes, unsigned mask, bool verbose)
{
    int fd[2];
    if (pipe(fd))
        return "harness|pipe";
    pid_t pid = fork();
    if (pid == 0)
    {
        close(fd[0]);
        g_pipe        = fd[1];
        g_child_alloc = a;
        g_child_shapes = shapes;
        g_child_mask   = mask;
        g_is_child     = true;
        fm::set_leak_handler(leak_to_pipe);
        run_child_and_exit();
        return "CHILD";
    }
    close(fd[1]);
    std::string out;
    char        buf[256];
    ssize_t     n;
    for (;;)
    {
        n = read(fd[0], buf, sizeof buf);
        if (n > 0)
            out.append(buf, std::size_t(n));
        else if (n == 0 || errno != EINTR) // the guard timer interrupts blocking calls
            break;
    }
    close(fd[0]);
    int st = 0;
    while (waitpid(pid, &st, 0) < 0 && errno == EINTR)
    {
    }
    if (verbose)
        std::printf("  child status %d, reports: %s", st, out.empty() ? "(none)\n" : out.c_str());
    if (!WIFEXITED(st) || WEXITSTATUS(st) != 0)
        return fmt("child-died|child ended with status %d", st);
    long exp   = expected_net(a, shapes, mask);
    int  lines = 0;
    long got   = 0;
    bool named = false;
    std::size_t pos = 0;
    while (pos < out.size())
    {
        auto e = out.find('\n', pos);
        if (e == std::string::npos)
            e = out.size();
        std::string line = out.substr(pos, e - pos);
        pos              = e + 1;
        if (line.empty())
            continue;
        ++lines;
        auto sp = line.rfind(' ');
        got     = std::atol(line.c_str() + sp + 1);
        named   = line.find(ANAME[a]) != std::string::npos;
    }
    if (!cfg_leak)
        return lines ? "leak-report-spurious|leak handler called although leak checking is disabled" : "";
    if (exp == 0 && lines)
        return fmt("leak-report-spurious|balanced process reported a leak of %ld", got);
    if (exp != 0 && (lines != 1 || got != exp || !named))
        return fmt("leak-report-wrong|net %ld bytes live at exit on %s: got %d report(s), last amount %ld%s", exp, ANAME[a], lines, got,
                   named ? "" : " (names another allocator)");
    return "";
}

int main(int argc, char** argv)
{
    std::map<std::string, std::string> a;
    for (int i = 1; i + 1 < argc; i += 2)
        a[argv[i]] = argv[i + 1];
    install_guards(a.count("--mode") && a["--mode"] == "fail" ? 1500 : 5000);
    std::string mode = a.count("--mode") ? a["--mode"] : "dfs";
    bool        thor = a.count("--tier") && a["--tier"] == "thorough";
    double      t0   = now_s();
    result      r;
    if (a.count("--replay"))
    {
        std::string js = a["--replay"];
        std::vector<int> ops;
        auto             p = js.find("[");
        while (p != std::string::npos && p < js.size())
        {
            ++p;
            while (p < js.size() && (js[p] == ' ' || js[p] == ','))
                ++p;
            if (p >= js.size() || js[p] == ']')
                break;
            ops.push_back(std::atoi(js.c_str() + p));
            while (p < js.size() && js[p] != ',' && js[p] != ']')
                ++p;
            if (js[p] == ']')
                break;
        }
        int al = js.find("malloc") != std::string::npos ? 1 : js.find("new_") != std::string::npos ? 2 : js.find("virtual") != std::string::npos ? 3 : 0;
        std::string v;
        if (js.find("\"fail\"") != std::string::npos && ops.size() == 2)
        {
            v = al == 0 ? fail_case<fm::heap_allocator>(ANAME[0], ops[0], ops[1], true) : al == 1 ? fail_case<fm::malloc_allocator>(ANAME[1], ops[0], ops[1], true)
                : al == 2 ? fail_case<fm::new_allocator>(ANAME[2], ops[0], ops[1], true) : fail_case<fm::virtual_memory_allocator>(ANAME[3], ops[0], ops[1], true);
            if (v == "SKIP")
                v = "";
        }
        else if (js.find("\"leak\"") != std::string::npos)
        {
            unsigned mask = unsigned(ops.back());
            ops.pop_back();
            v = leak_case(al, ops, mask, true);
            if (v == "CHILD")
                return 0;
        }
        else
            v = al == 0 ? run_seq<fm::heap_allocator>(ANAME[0], ops, true) : al == 1 ? run_seq<fm::malloc_allocator>(ANAME[1], ops, true)
                : al == 2 ? run_seq<fm::new_allocator>(ANAME[2], ops, true) : run_seq<fm::virtual_memory_allocator>(ANAME[3], ops, true);
        std::printf("verdict: %s\n", v.empty() ? "ok" : v.c_str());
        return v.empty() ? 0 : 1;
    }
    if (mode == "fail")
    {
        for (int al = 0; al < 4; ++al)
            for (int sh = 0; sh < NSHAPES; ++sh)
                for (int arm = 1; arm <= 5; ++arm)
                {
                    auto run = [&](bool verbose) {
                        return al == 0 ? fail_case<fm::heap_allocator>(ANAME[0], sh, arm, verbose) : al == 1 ? fail_case<fm::malloc_allocator>(ANAME[1], sh, arm, verbose)
                               : al == 2 ? fail_case<fm::new_allocator>(ANAME[2], sh, arm, verbose) : fail_case<fm::virtual_memory_allocator>(ANAME[3], sh, arm, verbose);
                    };
                    std::string v = run(false);
                    if (v == "SKIP")
                        continue;
                    ++r.sequences;
                    r.classes.insert(std::string(ANAME[al]) + ":" + std::to_string(sh) + ":" + std::to_string(arm));
                    if (r.samples.size() < 4 && sh == 1)
                        r.samples.push_back(fmt("%s: %s fails during request shape %d", ANAME[al], arm == 1 ? "malloc/new/mmap" : arm == 2 ? "mprotect(commit)" : "operator new persistently, new-handler installed", sh));
                    if (!v.empty())
                    {
                        std::string v2 = run(false);
                        jobj input;
                        input.str("mode", "fail").str("alloc", ANAME[al]).raw("ops", fmt("[%d,%d]", sh, arm));
                        auto bar = v.find('|');
                        add_vio(r, std::string(ANAME[al]) + "/" + v.substr(0, bar), v.substr(bar + 1) + (v2 == v ? "" : " (not reproduced)"), input.done());
                    }
                }
    }
    else if (mode == "dfs")
    {
        int              depth = thor ? 6 : 5;
        std::vector<int> ops;
        dfs<fm::heap_allocator>(ANAME[0], ops, 0, depth, r);
        dfs<fm::malloc_allocator>(ANAME[1], ops, 0, depth, r);
        dfs<fm::new_allocator>(ANAME[2], ops, 0, depth, r);
        dfs<fm::virtual_memory_allocator>(ANAME[3], ops, 0, depth - 1, r);
    }
    else
    {
        int maxk = thor ? 3 : 2;
        for (int al = 0; al < 4; ++al)
        {
            std::vector<std::vector<int>> sets = {{}};
            for (int k = 1; k <= maxk; ++k)
            {
                std::vector<int> idx(std::size_t(k), 0);
                for (;;)
                {
                    sets.push_back(idx);
                    int p = k - 1;
                    while (p >= 0 && ++idx[std::size_t(p)] == NSHAPES)
                        idx[std::size_t(p--)] = 0;
                    if (p < 0)
                        break;
                }
            }
            for (auto& sh : sets)
                for (unsigned mask = 0; mask < (1u << sh.size()); ++mask)
                {
                    ++r.sequences;
                    std::string v = leak_case(al, sh, mask, false);
                    if (v == "CHILD")
                        return 0; // child: leave main normally, static destructors report the leak
                    r.classes.insert(std::string(ANAME[al]) + ":" + std::to_string(sh.size()) + ":" + std::to_string(__builtin_popcount(mask)));
                    if (!v.empty())
                    {
                        std::string v2 = leak_case(al, sh, mask, false);
                        if (v2 == "CHILD")
                            return 0;
                        jarr in;
                        for (auto o : sh)
                            in.raw(std::to_string(o));
                        in.raw(std::to_string(mask));
                        jobj input;
                        input.str("mode", "leak").str("alloc", ANAME[al]).raw("ops", in.done());
                        auto bar = v.find('|');
                        add_vio(r, std::string(ANAME[al]) + "/" + v.substr(0, bar), v.substr(bar + 1) + (v2 == v ? "" : " (not reproduced)"), input.done());
                    }
                    if (r.samples.size() < 4 && sh.size() == 2 && mask == 1 && al == int(r.samples.size()))
                        r.samples.push_back(fmt("%s: allocate shapes %d,%d; release the first; exit", ANAME[al], sh[0], sh[1]));
                }
        }
    }
    jobj o;
    jarr sm, vs;
    for (auto& s : r.samples)
        sm.str(s);
    for (auto& v : r.vio)
        vs.raw(v);
    o.num("evaluations", r.sequences).num("distinct_nontrivial", (long long)r.classes.size())
        .str("rule", mode == "fail" ? "every low-level allocator x 5 request shapes x {malloc / operator new / mmap fails, mprotect (commit) fails}: the request must throw the "
                                      "out_of_memory family after calling its handler, never return null, and leave the allocator usable; distinct = (allocator, shape, primitive)"
                     : mode == "dfs" ? "all sequences up to the depth over {5 request shapes, release of any live allocation} on heap/malloc/new/virtual_memory allocators; "
                                     "distinct = (allocator, length, live count)"
                                   : "all multisets of <= 2/3 allocations x all subsets released, each in a forked child that exits normally; distinct = (allocator, "
                                     "allocations, releases)")
        .raw("samples", sm.done()).boolean("exhaustive", true).num("excluded", 0).dbl("wall_s", now_s() - t0).raw("violations", vs.done());
    std::string out = a.count("--out") ? a["--out"] : "";
    if (!out.empty())
    {
        FILE* f = std::fopen(out.c_str(), "w");
        std::fputs(o.done().c_str(), f);
        std::fputc('\n', f);
        std::fclose(f);
    }
    else
        std::printf("%s\n", o.done().c_str());
    return 0;
}
