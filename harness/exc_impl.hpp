// C20: object-creating helpers are exception safe at every constructor failure point.
//
// Exhaustive fault enumeration on the real library code:
//   for every allocator fixture (instrumented logging RawAllocator, tracked memory_pool (two node sizes),
//   tracked memory_stack, tracked heap_allocator), every helper / joint_array constructor form, every array
//   length n = 0..16 (single objects: n = 1), every capacity slack, and every failing construction index
//   k = 1..points (k = 0: success run) one run is executed with an element type that throws a tagged
//   exception from its k-th construction inside the armed window.
// Oracle (per run): per-object construct/destruct log keyed by address+serial, allocator call log
// (kind, count, size, alignment, address), identity of the caught exception, follow-up allocation.
//
//   h_exc [--alloc log|pool|pool16|stack|heap|all] --tier quick|thorough --out <file>
//   h_exc [--alloc x] --replay '{"alloc":"log","helper":"joint.size","n":3,"k":2,"slack":0}'
// (implementation; included by h_exc.cpp and, restricted to the scoped helpers and optimised with -O2, by h_exc_o2.cpp)
#ifndef VERIF_EXC_IMPL_HPP
#define VERIF_EXC_IMPL_HPP
#ifndef VERIF_EXC_SCOPED_ONLY
#define VERIF_EXC_SCOPED_ONLY 0
#endif
#include "../engine/core.hpp"

#include <foonathan/memory/allocator_traits.hpp>
#include <foonathan/memory/debugging.hpp>
#include <foonathan/memory/heap_allocator.hpp>
#include <foonathan/memory/joint_allocator.hpp>
#include <foonathan/memory/memory_pool.hpp>
#include <foonathan/memory/memory_stack.hpp>
#include <foonathan/memory/smart_ptr.hpp>
#include <foonathan/memory/tracking.hpp>

#include <cerrno>
#include <iterator>
#include <map>
#include <memory>
#include <set>
#include <typeinfo>
#include <sys/wait.h>
#include <utility>

namespace fm = foonathan::memory;
using namespace verif;

//=== allocator call log ===================================================================================//
enum aop
{
    A_ALLOC_NODE    = 0,
    A_ALLOC_ARRAY   = 1,
    A_DEALLOC_NODE  = 2,
    A_DEALLOC_ARRAY = 3
};
static const char* aop_name(int op)
{
    static const char* n[] = {"allocate_node", "allocate_array", "deallocate_node", "deallocate_array"};
    return n[op & 3];
}
struct aev
{
    int            op;
    std::size_t    count, size, align;
    std::uintptr_t addr;
};
struct alog
{
    std::vector<aev> ev;
    void             add(int op, void* p, std::size_t count, std::size_t size, std::size_t align)
    {
        ev.push_back({op, count, size, align, reinterpret_cast<std::uintptr_t>(p)});
    }
};

struct issue
{
    std::string tag, detail;
};

static std::string render(const aev& e, std::uintptr_t base)
{
    return fmt("%s(count=%zu,size=%zu,align=%zu)@%+lld", aop_name(e.op), e.count, e.size, e.align,
               (long long)(e.addr - base));
}

struct log_state
{
    std::map<std::uintptr_t, aev> outstanding;
    std::vector<issue>            issues;
};

// replays the whole log: every deallocation must answer an outstanding allocation at the same address with the
// same kind (node vs array), count, size and alignment
static log_state analyse(const alog& l)
{
    log_state      s;
    std::uintptr_t base = l.ev.empty() ? 0 : l.ev[0].addr;
    for (std::size_t i = 0; i != l.ev.size(); ++i)
    {
        const aev& e = l.ev[i];
        if (e.op == A_ALLOC_NODE || e.op == A_ALLOC_ARRAY)
        {
            if (e.addr == 0)
                s.issues.push_back({"alloc-null", fmt("call #%zu %s returned null", i, render(e, base).c_str())});
            else if (s.outstanding.count(e.addr))
                s.issues.push_back({"alloc-overlap", fmt("call #%zu %s returned an address that is still allocated",
                                                         i, render(e, base).c_str())});
            s.outstanding[e.addr] = e;
        }
        else
        {
            auto it = s.outstanding.find(e.addr);
            if (it == s.outstanding.end())
            {
                s.issues.push_back({"alloc-release-unowned",
                                    fmt("call #%zu %s releases memory that is not allocated (released twice or "
                                        "never handed out)",
                                        i, render(e, base).c_str())});
                continue;
            }
            const aev& a         = it->second;
            bool       kind_node = a.op == A_ALLOC_NODE;
            bool       rel_node  = e.op == A_DEALLOC_NODE;
            if (kind_node != rel_node)
                s.issues.push_back({"alloc-kind-mismatch", fmt("%s answered by %s (call #%zu)",
                                                               render(a, base).c_str(), render(e, base).c_str(), i)});
            else if (a.count != e.count || a.size != e.size || a.align != e.align)
                s.issues.push_back({"alloc-param-mismatch", fmt("%s answered by %s (call #%zu)",
                                                                render(a, base).c_str(), render(e, base).c_str(), i)});
            s.outstanding.erase(it);
        }
    }
    return s;
}

//=== fault injection + per-object log =====================================================================//
enum okind
{
    K_DEFAULT = 0,
    K_VALUE   = 1,
    K_COPY    = 2,
    K_MOVE    = 3,
    K_BODY    = 4, // body of the joint type's constructor (after all members)
    K_DTOR    = 5
};
static const char* okind_name(int k)
{
    static const char* n[] = {"default-ctor", "value-ctor", "copy-ctor", "move-ctor", "owner-body", "dtor"};
    return n[k];
}

struct world_t;
extern world_t W;

struct injected
{
    unsigned tag;
    explicit injected(unsigned t);
    injected(const injected& o);
    virtual ~injected() {}
};
struct injected_derived : injected
{
    unsigned tag2;
    explicit injected_derived(unsigned t) : injected(t), tag2(~t) {}
};

struct eev
{
    int            kind;
    std::uintptr_t addr;
    unsigned       serial;
    bool           in_window;
};

struct world_t
{
    std::vector<eev>                   ev;
    std::map<std::uintptr_t, unsigned> live; // address -> serial of the object living there
    std::set<std::uintptr_t>           dead; // addresses whose last object was destroyed
    unsigned                           next_serial = 1;
    // fault
    bool     prepared = false, armed = false;
    int      fail_at = 0, ops = 0;
    unsigned tag = 0;
    int      failing_kind = -1;
    // window marks
    unsigned    first_target = 0;
    std::size_t ev_mark = 0, log_mark = 0;
    alog*       watched = nullptr;
    // injected exception bookkeeping
    const void* thrown_addr    = nullptr;
    int         injected_made  = 0;
    int         injected_copies = 0;
    // anomalies of the per-object log, library reports (handlers)
    std::vector<issue> anomalies;
    std::vector<issue> lib_reports;
    long               kinds[6] = {0, 0, 0, 0, 0, 0};

    void reset()
    {
        long k[6];
        for (int i = 0; i != 6; ++i)
            k[i] = kinds[i];
        *this = world_t();
        for (int i = 0; i != 6; ++i)
            kinds[i] = k[i];
    }
    void prepare(int k, unsigned t)
    {
        prepared = true;
        fail_at  = k;
        tag      = t;
    }
    // start of the armed window: called by the helper right before the library call
    void go()
    {
        armed        = prepared;
        ops          = 0;
        first_target = next_serial;
        ev_mark      = ev.size();
        log_mark     = watched ? watched->ev.size() : 0;
    }
    void disarm()
    {
        armed = prepared = false;
    }
    void point(int kind, bool can_throw)
    {
        if (!armed)
            return;
        ++ops;
        if (can_throw && ops == fail_at)
        {
            failing_kind = kind;
            throw injected_derived(tag);
        }
    }
    unsigned on_ctor(const void* p, int kind, bool can_throw)
    {
        point(kind, can_throw);
        auto a = reinterpret_cast<std::uintptr_t>(p);
        if (live.count(a))
            anomalies.push_back({"elem-constructed-over-live",
                                 fmt("%s at an address where object #%u is still alive", okind_name(kind), live[a])});
        unsigned s = next_serial++;
        live[a]    = s;
        dead.erase(a);
        ev.push_back({kind, a, s, armed});
        ++kinds[kind];
        return s;
    }
    void on_dtor(const void* p, const unsigned* serial_field)
    {
        auto a  = reinterpret_cast<std::uintptr_t>(p);
        auto it = live.find(a);
        ++kinds[K_DTOR];
        if (it == live.end())
        {
            if (dead.count(a))
                anomalies.push_back({"elem-double-destroy",
                                     fmt("destructor called a second time on an already destroyed element "
                                         "(event #%zu)",
                                         ev.size())});
            else
                anomalies.push_back({"elem-destroy-unconstructed",
                                     fmt("destructor called on storage where no element was ever constructed "
                                         "(event #%zu)",
                                         ev.size())});
            ev.push_back({K_DTOR, a, 0, armed});
            return;
        }
        unsigned s = it->second;
        if (*serial_field != s)
            anomalies.push_back({"elem-identity-mismatch",
                                 fmt("object #%u destroyed but its serial field reads %u", s, *serial_field)});
        ev.push_back({K_DTOR, a, s, armed});
        live.erase(it);
        dead.insert(a);
    }
    int live_targets() const
    {
        int n = 0;
        for (auto& kv : live)
            if (kv.second >= first_target)
                ++n;
        return n;
    }
    int window_count(bool ctor) const
    {
        int n = 0;
        for (std::size_t i = ev_mark; i < ev.size(); ++i)
            if (ev[i].serial >= first_target || ev[i].serial == 0)
                if ((ev[i].kind != K_DTOR) == ctor)
                    ++n;
        return n;
    }
};
world_t W;

injected::injected(unsigned t) : tag(t)
{
    ++W.injected_made;
    W.thrown_addr = this;
}
injected::injected(const injected& o) : tag(o.tag)
{
    ++W.injected_copies;
}

// element type; NXC / NXM / NXO: copy / move / default+value constructors are noexcept (and then never fail).
// all true: allocate_array_unique takes the no-rollback path. The mixed variants make conditional exception
// specifications inside the library observable (noexcept move + throwing copy, and the mirror image).
template <bool NXC, bool NXM, bool NXO>
struct elem_t
{
    long long value;
    unsigned  serial;
    unsigned  magic;

    elem_t() noexcept(NXO) : value(-1), magic(0xE1E2E3E4u)
    {
        serial = W.on_ctor(this, K_DEFAULT, !NXO);
    }
    explicit elem_t(int v) noexcept(NXO) : value(v), magic(0xE1E2E3E4u)
    {
        serial = W.on_ctor(this, K_VALUE, !NXO);
    }
    elem_t(const elem_t& o) noexcept(NXC) : value(o.value), magic(0xE1E2E3E4u)
    {
        serial = W.on_ctor(this, K_COPY, !NXC);
    }
    elem_t(elem_t&& o) noexcept(NXM) : value(o.value), magic(0xE1E2E3E4u)
    {
        serial = W.on_ctor(this, K_MOVE, !NXM);
    }
    elem_t& operator=(const elem_t&) = delete;
    ~elem_t()
    {
        W.on_dtor(this, &serial);
    }
};
using elem    = elem_t<false, false, false>;
using elem_nx = elem_t<true, true, true>;
using elem_mc = elem_t<false, true, false>; // noexcept move, throwing copy (the usual resource-owning class)
using elem_cm = elem_t<true, false, false>; // throwing move, noexcept copy
static_assert(std::is_nothrow_move_constructible<elem_mc>::value && !std::is_nothrow_copy_constructible<elem_mc>::value,
              "elem_mc");
static_assert(!std::is_nothrow_move_constructible<elem_cm>::value && std::is_nothrow_copy_constructible<elem_cm>::value,
              "elem_cm");
static_assert(sizeof(elem_mc) == sizeof(elem) && sizeof(elem_cm) == sizeof(elem), "same layout");
static_assert(!noexcept(elem()), "elem() must be potentially throwing");
static_assert(noexcept(elem_nx()), "elem_nx() must be noexcept");

//=== joint type under test ================================================================================//
struct f_size
{
};
struct f_size_value
{
};
struct f_ilist
{
};
struct f_range
{
};

struct owner : fm::joint_type<owner>
{
    fm::joint_array<elem> arr;

    owner(fm::joint j, f_size, std::size_t n) : fm::joint_type<owner>(j), arr(n, *this)
    {
        W.point(K_BODY, true);
    }
    owner(fm::joint j, f_size_value, std::size_t n, const elem& v) : fm::joint_type<owner>(j), arr(n, v, *this)
    {
        W.point(K_BODY, true);
    }
    owner(fm::joint j, f_ilist, std::initializer_list<elem> il) : fm::joint_type<owner>(j), arr(il, *this)
    {
        W.point(K_BODY, true);
    }
    template <typename It>
    owner(fm::joint j, f_range, It b, It e) : fm::joint_type<owner>(j), arr(b, e, *this)
    {
        W.point(K_BODY, true);
    }
    owner(fm::joint j, const owner& o) : fm::joint_type<owner>(j), arr(o.arr, *this)
    {
        W.point(K_BODY, true);
    }
    owner(fm::joint j, owner&& o) : fm::joint_type<owner>(j), arr(std::move(o.arr), *this)
    {
        W.point(K_BODY, true);
    }
};

// joint type whose constructors take an instrumented element BY VALUE: the copy / move / conversion that initialises
// the parameter runs inside joint_ptr::create()'s new-expression BEFORE the joint_type base is initialised, so a
// failure there reaches the rollback with a block that holds nothing but the allocator's garbage.
struct bv_owner;
struct bv_snapshot // implicitly made from a bv_owner: what clone_joint's `T(joint, const T&)` call converts to
{
    elem        e;
    std::size_t n;
    bv_snapshot(const bv_owner& o);
};
struct bv_owner : fm::joint_type<bv_owner>
{
    elem                  held;
    fm::joint_array<elem> arr;

    bv_owner(fm::joint j, elem e) : fm::joint_type<bv_owner>(j), held(std::move(e)), arr(std::size_t(0), *this)
    {
        W.point(K_BODY, true);
    }
    bv_owner(fm::joint j, elem e, f_size, std::size_t n) : fm::joint_type<bv_owner>(j), held(std::move(e)), arr(n, *this)
    {
        W.point(K_BODY, true);
    }
    bv_owner(fm::joint j, bv_snapshot s) : fm::joint_type<bv_owner>(j), held(std::move(s.e)), arr(s.n, *this)
    {
        W.point(K_BODY, true);
    }
};
inline bv_snapshot::bv_snapshot(const bv_owner& o) : e(o.held), n(o.arr.size()) {}

// joint type without any instrumented member (trivially destructible apart from the base): creation can only fail
// in the constructor body
struct plain_owner : fm::joint_type<plain_owner>
{
    int value;
    plain_owner(fm::joint j, int v) : fm::joint_type<plain_owner>(j), value(v)
    {
        W.point(K_BODY, true);
    }
};

// the same without any failure point: nothing opaque happens between construction and destruction, which is what an
// optimising compiler needs to exploit lifetime rules (dead store elimination) in joint_ptr's release path
struct quiet_owner : fm::joint_type<quiet_owner>
{
    int value;
    quiet_owner(fm::joint j, int v) : fm::joint_type<quiet_owner>(j), value(v) {}
};
static int pts_zero(int)
{
    return 0;
}

//=== allocators ===========================================================================================//
// instrumented RawAllocator: records every call; memory comes from malloc and is pre-filled with garbage
struct log_alloc
{
    using is_stateful = std::true_type;

    alog*                                 log;
    std::map<std::uintptr_t, std::size_t> held;

    explicit log_alloc(alog* l) : log(l) {}
    log_alloc(const log_alloc&)            = delete;
    log_alloc& operator=(const log_alloc&) = delete;
    ~log_alloc()
    {
        for (auto& kv : held)
            std::free(reinterpret_cast<void*>(kv.first));
    }

    void* raw(std::size_t bytes, std::size_t align)
    {
        void*       p = nullptr;
        std::size_t a = align < sizeof(void*) ? sizeof(void*) : align;
        if (posix_memalign(&p, a, bytes ? bytes : 1) != 0)
            throw std::bad_alloc();
        std::memset(p, 0xCD, bytes ? bytes : 1);
        held[reinterpret_cast<std::uintptr_t>(p)] = bytes;
        return p;
    }
    void unraw(void* p) noexcept
    {
        auto it = held.find(reinterpret_cast<std::uintptr_t>(p));
        if (it == held.end())
            return; // the oracle reports it from the log; do not corrupt the process heap
        std::memset(p, 0xDD, it->second);
        held.erase(it);
        std::free(p);
    }

    void* allocate_node(std::size_t size, std::size_t alignment)
    {
        void* p = raw(size, alignment);
        log->add(A_ALLOC_NODE, p, 1, size, alignment);
        return p;
    }
    void* allocate_array(std::size_t count, std::size_t size, std::size_t alignment)
    {
        void* p = raw(count * size, alignment);
        log->add(A_ALLOC_ARRAY, p, count, size, alignment);
        return p;
    }
    void deallocate_node(void* p, std::size_t size, std::size_t alignment) noexcept
    {
        log->add(A_DEALLOC_NODE, p, 1, size, alignment);
        unraw(p);
    }
    void deallocate_array(void* p, std::size_t count, std::size_t size, std::size_t alignment) noexcept
    {
        log->add(A_DEALLOC_ARRAY, p, count, size, alignment);
        unraw(p);
    }
};

// tracker for the library's tracked_allocator: turns the tracking events of a real allocator into the same log
struct log_tracker
{
    alog* log;

    void on_node_allocation(void* p, std::size_t size, std::size_t align) noexcept
    {
        log->add(A_ALLOC_NODE, p, 1, size, align);
    }
    void on_array_allocation(void* p, std::size_t count, std::size_t size, std::size_t align) noexcept
    {
        log->add(A_ALLOC_ARRAY, p, count, size, align);
    }
    void on_node_deallocation(void* p, std::size_t size, std::size_t align) noexcept
    {
        log->add(A_DEALLOC_NODE, p, 1, size, align);
    }
    void on_array_deallocation(void* p, std::size_t count, std::size_t size, std::size_t align) noexcept
    {
        log->add(A_DEALLOC_ARRAY, p, count, size, align);
    }
    void on_allocator_growth(void*, std::size_t) noexcept {}
    void on_allocator_shrinking(void*, std::size_t) noexcept {}
};

struct fix_log
{
    using alloc_type = log_alloc;
    alog       log;
    log_alloc  a{&log};
    alloc_type& alloc()
    {
        return a;
    }
    static constexpr bool any_ok = true;
};

// memory_pool<node_pool>; node / block size are selected at run time ("pool": 512-byte nodes, every request fits
// one node; "pool16": 16-byte nodes, arrays span n nodes)
static std::size_t g_pool_node = 512, g_pool_block = 16384;
struct fix_pool
{
    using alloc_type = fm::tracked_allocator<log_tracker, fm::memory_pool<>>;
    alog       log;
    alloc_type a;
    fix_pool() : a(log_tracker{&log}, fm::memory_pool<>(g_pool_node, g_pool_block)) {}
    alloc_type& alloc()
    {
        return a;
    }
    static constexpr bool any_ok = true;
};

struct fix_stack
{
    using alloc_type = fm::tracked_allocator<log_tracker, fm::memory_stack<>>;
    alog       log;
    alloc_type a;
    fix_stack() : a(log_tracker{&log}, fm::memory_stack<>(8192)) {}
    alloc_type& alloc()
    {
        return a;
    }
    static constexpr bool any_ok = true;
};

struct fix_heap
{
    using alloc_type = fm::tracked_allocator<log_tracker, fm::heap_allocator>;
    alog       log;
    alloc_type a;
    fix_heap() : a(log_tracker{&log}, fm::heap_allocator{}) {}
    alloc_type& alloc()
    {
        return a;
    }
    // tracked_allocator<_, heap_allocator> declares try_* members although heap_allocator is not composable,
    // so binding it to a type-erased reference does not compile (not part of this property)
    static constexpr bool any_ok = false;
};

// sources: elements / ints the helpers copy or move from, and an allocator for source joint objects
struct src_env
{
    alog              log;
    log_alloc         alloc{&log};
    std::vector<elem>    elems;
    std::vector<int>     ints;
    std::vector<elem_mc> mc; // one source each for the value-category helpers
    std::vector<elem_cm> cm;
    void                 fill(int n)
    {
        mc.reserve(1);
        cm.reserve(1);
        mc.emplace_back(300);
        cm.emplace_back(301);
        elems.reserve(std::size_t(n));
        for (int i = 0; i != n; ++i)
        {
            elems.emplace_back(100 + i);
            ints.push_back(200 + i);
        }
    }
};

//=== cases ================================================================================================//
struct case_id
{
    std::string alloc, helper;
    int         n = 0, k = 0, slack = 0;
    std::string json() const
    {
        return jobj().str("alloc", alloc).str("helper", helper).num("n", n).num("k", k).num("slack", slack).done();
    }
};

struct verdict
{
    std::vector<issue>       v;
    std::vector<std::string> trace;     // rendered logs (verbose / samples)
    bool                     nontrivial = false;
    std::string              outcome;   // success | rollback | other
    void                     add(const std::string& tag, const std::string& detail)
    {
        v.push_back({tag, detail});
    }
};

static bool  g_verbose = false;
static long  g_obs_top_restored = 0, g_obs_top_not_restored = 0;
static long  g_obs_any_n1_node = 0, g_obs_any_n1_array = 0;

static void render_logs(verdict& v, const alog& l)
{
    std::uintptr_t abase = l.ev.empty() ? 0 : l.ev[0].addr;
    std::uintptr_t ebase = 0;
    for (std::size_t i = W.ev_mark; i < W.ev.size(); ++i)
        if (W.ev[i].serial >= W.first_target || W.ev[i].serial == 0)
        {
            if (!ebase || W.ev[i].addr < ebase)
                ebase = W.ev[i].addr;
        }
    for (std::size_t i = 0; i != l.ev.size(); ++i)
        v.trace.push_back(fmt("alloc#%zu%s %s", i, i >= W.log_mark ? "*" : " ", render(l.ev[i], abase).c_str()));
    for (std::size_t i = 0; i != W.ev.size(); ++i)
    {
        const eev&  e      = W.ev[i];
        bool        target = e.serial >= W.first_target || e.serial == 0;
        std::string where;
        for (std::size_t j = 0; j != l.ev.size() && where.empty(); ++j)
            if (l.ev[j].op <= A_ALLOC_ARRAY && e.addr >= l.ev[j].addr
                && e.addr < l.ev[j].addr + (l.ev[j].count * l.ev[j].size ? l.ev[j].count * l.ev[j].size : 1))
                where = fmt("block(alloc#%zu)+%lld", j, (long long)(e.addr - l.ev[j].addr));
        if (where.empty())
            where = target ? fmt("outside-blocks, target%+lld", (long long)(e.addr - ebase)) : std::string("elsewhere");
        v.trace.push_back(fmt("elem#%zu%s %s object#%u @%s%s", i, i >= W.ev_mark ? "*" : " ", okind_name(e.kind),
                              e.serial, where.c_str(), target ? " (target)" : " (source)"));
    }
}

// The generic driver. `prep` builds (unarmed) whatever the helper needs and returns a context object; `create`
// calls W.go() immediately before the library call under test and returns a movable owner with reset().
// The type dependent parts are passed type-erased so that this (large) function is compiled once.
struct core_io
{
    alog* log;     // call log of the allocator under test
    alog* src_log; // call log of the allocator holding source objects
    void* self;
    void* (*prep)(void* self);              // builds the context (unarmed), heap allocated
    void (*ctx_free)(void* ctx);
    void* (*create)(void* self, void* ctx); // the armed call; returns the created owner, heap allocated
    void (*release)(void* obj);             // owner.reset()
    void (*obj_free)(void* obj);
    void (*followup)(void* self, verdict&); // follow-up allocations on the same allocator
};

// temps: by-value constructor parameters of the joint type (constructed first inside the window, outside the block,
// destroyed at the end of the creating expression)
static void drive_core(const case_id& c, verdict& v, int expect_allocs, int points, int expect_elems, int temps,
                       core_io& io)
{
    const unsigned tag = 0xC2000000u + unsigned(c.n) * 256u + unsigned(c.k);
    alog&          flog = *io.log;
    std::size_t    reported = 0;
    {
        W.watched = &flog;
        {
            void*     ctx  = io.prep(io.self);
            log_state base = analyse(flog);
            for (auto& i : base.issues)
                v.add("prep-" + i.tag, i.detail);
            W.prepare(c.k, tag);
            W.go(); // default marks in case the helper throws before it reaches go()
            W.armed    = false;
            bool threw = false;
            try
            {
                void* obj = io.create(io.self, ctx);
                struct obj_guard
                {
                    core_io& io;
                    void*    o;
                    ~obj_guard()
                    {
                        io.obj_free(o);
                    }
                } guard{io, obj};
                W.disarm();
                v.outcome = "success";
                //--- success: each element constructed once
                if (c.k != 0)
                    v.add("fault-not-reached",
                          fmt("failure injected at construction %d but only %d constructions happened and no "
                              "exception arrived",
                              c.k, W.ops));
                if (W.ops != points)
                    v.add("success-op-count", fmt("%d construction steps observed, %d expected", W.ops, points));
                int ctors = W.window_count(true), dtors = W.window_count(false);
                // scoped helpers (temps == -1) create AND release the object inside the armed call
                const bool scoped   = temps < 0;
                const int  ntemps   = scoped ? 0 : temps;
                const int  early    = scoped ? expect_elems : ntemps;
                const int  live_exp = scoped ? 0 : expect_elems;
                const int  held_exp = scoped ? 0 : expect_allocs;
                if (ctors != expect_elems + ntemps)
                    v.add("success-ctor-count",
                          fmt("%d elements constructed, exactly %d expected", ctors, expect_elems + ntemps));
                if (dtors != early)
                    v.add("success-early-dtor",
                          fmt("%d element destructions during creation, %d expected", dtors, early));
                if (W.live_targets() != live_exp)
                    v.add("success-live-count",
                          fmt("%d elements alive after creation, %d expected", W.live_targets(), live_exp));
                log_state mid  = analyse(flog);
                int       nall = 0;
                for (std::size_t i = W.log_mark; i < flog.ev.size(); ++i)
                    if (flog.ev[i].op <= A_ALLOC_ARRAY)
                        ++nall;
                if (nall != expect_allocs)
                    v.add("success-alloc-count", fmt("%d allocations during creation, %d expected", nall,
                                                     expect_allocs));
                if (mid.outstanding.size() != base.outstanding.size() + std::size_t(held_exp))
                    v.add("success-outstanding",
                          fmt("%zu blocks outstanding after creation, %zu expected", mid.outstanding.size(),
                              base.outstanding.size() + std::size_t(held_exp)));
                // every target element lies inside a block handed out for it
                for (auto& kv : W.live)
                    if (kv.second >= W.first_target)
                    {
                        bool inside = false;
                        for (auto& o : mid.outstanding)
                            if (kv.first >= o.first
                                && kv.first + sizeof(elem) <= o.first + o.second.count * o.second.size)
                                inside = true;
                        if (!inside)
                            v.add("elem-outside-block",
                                  fmt("object #%u lies outside every block obtained from the allocator", kv.second));
                    }
                if (c.helper.find("_any") != std::string::npos && c.helper.find("array") != std::string::npos
                    && c.n == 1 && flog.ev.size() > W.log_mark)
                    (flog.ev[W.log_mark].op == A_ALLOC_NODE ? g_obs_any_n1_node : g_obs_any_n1_array)++;
                //--- later: destroyed once, memory released once with matching parameters
                io.release(obj);
                dtors = W.window_count(false) - ntemps;
                if (dtors != expect_elems)
                    v.add("success-dtor-count",
                          fmt("%d element destructions after release, exactly %d expected", dtors, expect_elems));
                if (W.live_targets() != 0)
                    v.add("elem-leaked", fmt("%d elements still alive after the owner was released",
                                             W.live_targets()));
            }
            catch (injected& e)
            {
                W.disarm();
                threw     = true;
                v.outcome = "rollback";
                //--- the exception is the injected object and arrived unchanged
                if (c.k == 0)
                    v.add("exception-unexpected", "an injected exception arrived although no failure was armed");
                if (e.tag != tag || typeid(e) != typeid(injected_derived)
                    || static_cast<injected_derived&>(e).tag2 != ~tag)
                    v.add("exception-changed", fmt("caught exception carries tag %08x / dynamic type %s, injected "
                                                   "was %08x / injected_derived",
                                                   e.tag, typeid(e).name(), tag));
                else if (static_cast<const void*>(&e) != W.thrown_addr || W.injected_copies != 0
                         || W.injected_made != 1)
                    v.add("exception-changed",
                          fmt("the caught exception is not the thrown object (%d copies made, %d objects created)",
                              W.injected_copies, W.injected_made));
            }
            catch (std::exception& e)
            {
                W.disarm();
                v.outcome = "other-exception";
                v.add(c.k ? "exception-changed" : "exception-unexpected",
                      fmt("a different exception arrived: %s", e.what()));
            }
            catch (...)
            {
                W.disarm();
                v.outcome = "other-exception";
                v.add(c.k ? "exception-changed" : "exception-unexpected", "a different exception arrived");
            }
            if (threw)
            {
                //--- rollback: live count of target elements zero, memory released with matching parameters
                if (W.ops != c.k)
                    v.add("harness-op-count", fmt("threw at op %d, armed %d", W.ops, c.k));
                if (W.live_targets() != 0)
                    v.add("elem-leaked", fmt("%d of %d constructed elements were not destroyed after the throw",
                                             W.live_targets(), W.window_count(true)));
                log_state after = analyse(flog);
                if (after.outstanding.size() > base.outstanding.size())
                {
                    for (auto& o : after.outstanding)
                        if (!base.outstanding.count(o.first))
                            v.add("alloc-leak",
                                  fmt("%s was not released after the constructor threw",
                                      render(o.second, flog.ev[0].addr).c_str()));
                }
                else if (after.outstanding.size() < base.outstanding.size())
                    v.add("alloc-released-foreign", "a block that existed before the call was released");
                // constructed elements were inside a block obtained in the window (or held before)
                int skip = temps > 0 ? temps : 0; // constructor parameters live on the caller's stack
                for (std::size_t i = W.ev_mark; i < W.ev.size(); ++i)
                {
                    const eev& e = W.ev[i];
                    if (e.kind == K_DTOR || e.serial < W.first_target)
                        continue;
                    if (skip > 0)
                    {
                        --skip;
                        continue;
                    }
                    bool inside = false;
                    for (auto& o : base.outstanding)
                        if (e.addr >= o.first && e.addr + sizeof(elem) <= o.first + o.second.count * o.second.size)
                            inside = true;
                    for (std::size_t j = W.log_mark; j < flog.ev.size(); ++j)
                    {
                        const aev& o = flog.ev[j];
                        if (o.op <= A_ALLOC_ARRAY && e.addr >= o.addr
                            && e.addr + sizeof(elem) <= o.addr + o.count * o.size)
                            inside = true;
                    }
                    if (!inside)
                        v.add("elem-outside-block",
                              fmt("object #%u was constructed outside every block obtained from the allocator",
                                  e.serial));
                }
            }
            //--- allocator log and per-object log after the call (both paths)
            log_state fin = analyse(flog);
            for (auto& i : fin.issues)
                v.add(i.tag, i.detail);
            if (!threw && v.outcome == "success" && fin.outstanding.size() != base.outstanding.size())
                v.add("alloc-leak", fmt("%zu blocks outstanding after the owner was released, %zu before the call",
                                        fin.outstanding.size(), base.outstanding.size()));
            for (auto& a : W.anomalies)
                v.add(a.tag, a.detail);
            W.anomalies.clear();
            v.nontrivial = W.ops > 0 || flog.ev.size() > W.log_mark;
            if (g_verbose || !v.v.empty())
                render_logs(v, flog);
            //--- the allocator remains usable
            io.followup(io.self, v);
            reported = fin.issues.size();
            io.ctx_free(ctx);
        } // ctx (hosts, source joint objects) destroyed
        log_state end = analyse(flog);
        for (std::size_t i = reported; i < end.issues.size(); ++i)
            v.add("teardown-" + end.issues[i].tag, end.issues[i].detail);
        if (!end.outstanding.empty())
            v.add("alloc-leak", fmt("%zu blocks still outstanding at the end of the case", end.outstanding.size()));
        log_state send = analyse(*io.src_log);
        if (!send.outstanding.empty() || !send.issues.empty())
            v.add("source-alloc-unbalanced", "the source allocator's log does not balance");
        W.watched = nullptr;
    }
}

static void drive_post(verdict& v)
{
    for (auto& a : W.anomalies)
        v.add("teardown-" + a.tag, a.detail);
    if (!W.live.empty())
        v.add("elem-leaked", fmt("%zu elements alive at the end of the case", W.live.size()));
    for (auto& r : W.lib_reports)
        v.add(r.tag, r.detail);
}


template <class Fix>
static void followup_allocs(Fix& fix, verdict& v)
{
    try
    {
        using traits = fm::allocator_traits<typename Fix::alloc_type>;
        std::size_t ev0 = fix.log.ev.size();
        void*       p   = traits::allocate_node(fix.alloc(), sizeof(elem), alignof(elem));
        if (!p)
            v.add("allocator-unusable", "follow-up allocation returned null");
        else
        {
            std::memset(p, 0x5A, sizeof(elem));
            traits::deallocate_node(fix.alloc(), p, sizeof(elem), alignof(elem));
        }
        void* q = traits::allocate_array(fix.alloc(), 2, sizeof(elem), alignof(elem));
        if (!q)
            v.add("allocator-unusable", "follow-up array allocation returned null");
        else
        {
            std::memset(q, 0x5A, 2 * sizeof(elem));
            traits::deallocate_array(fix.alloc(), q, 2, sizeof(elem), alignof(elem));
        }
        (void)ev0;
    }
    catch (std::exception& e)
    {
        v.add("allocator-unusable", fmt("follow-up allocation threw: %s", e.what()));
    }
    catch (...)
    {
        v.add("allocator-unusable", "follow-up allocation threw");
    }
}

// type dependent thunks: P::prep builds the context, H::create performs the armed library call
template <class Fix, class P, class H>
struct thunks
{
    using A = typename Fix::alloc_type;
    struct self_t
    {
        Fix*           fix;
        src_env*       src;
        const case_id* c;
    };
    using Ctx = decltype(P::prep(std::declval<A&>(), std::declval<src_env&>(), std::declval<const case_id&>()));
    using Obj = decltype(H::create(std::declval<A&>(), std::declval<src_env&>(), std::declval<Ctx&>(),
                                   std::declval<const case_id&>()));

    static void* prep(void* s)
    {
        auto& x = *static_cast<self_t*>(s);
        return new Ctx(P::prep(x.fix->alloc(), *x.src, *x.c));
    }
    static void ctx_free(void* p)
    {
        delete static_cast<Ctx*>(p);
    }
    static void* create(void* s, void* ctx)
    {
        auto& x = *static_cast<self_t*>(s);
        return new Obj(H::create(x.fix->alloc(), *x.src, *static_cast<Ctx*>(ctx), *x.c));
    }
    static void release(void* o)
    {
        static_cast<Obj*>(o)->reset();
    }
    static void obj_free(void* o)
    {
        delete static_cast<Obj*>(o);
    }
    static void followup(void* s, verdict& v)
    {
        followup_allocs(*static_cast<self_t*>(s)->fix, v);
    }
    static void run(const case_id& c, verdict& v, int expect_allocs, int points, int expect_elems, int temps = 0)
    {
        W.reset();
        {
            Fix     fix;
            src_env src;
            self_t  self{&fix, &src, &c};
            core_io io{&fix.log, &src.log, &self, &prep, &ctx_free, &create, &release, &obj_free, &followup};
            drive_core(c, v, expect_allocs, points, expect_elems, temps, io);
        } // sources and fixture destroyed (pool / stack destructors run their leak check)
        drive_post(v);
    }
};

//=== helper table =========================================================================================//
struct helper_entry
{
    std::string name;
    int         nmin, nmax;
    bool        throwing;           // false: only the success run exists
    int (*points)(int n);           // countable construction steps on success
    std::size_t (*need)(int n, int slack); // largest node size requested
    void (*run)(const case_id&, verdict&);
    bool uses_slack;
};

static std::size_t joint_cap(const case_id& c)
{
    return std::size_t(c.n) * sizeof(elem) + std::size_t(c.slack);
}

// initializer_list of run-time length: one instantiation per length
template <std::size_t... I, class F>
static auto with_ilist_impl(const std::vector<elem>& s, std::index_sequence<I...>, F&& f)
{
    std::initializer_list<elem> il = {s[I]...}; // copies happen before the armed window (f calls W.go())
    return f(il);
}
template <class F>
static auto with_ilist(const std::vector<elem>& s, F&& f)
{
#define VERIF_IL(N)                                                                                                \
    case N:                                                                                                        \
        return with_ilist_impl(s, std::make_index_sequence<N>{}, f);
    switch (s.size())
    {
        VERIF_IL(0)
        VERIF_IL(1)
        VERIF_IL(2)
        VERIF_IL(3)
        VERIF_IL(4)
        VERIF_IL(5)
        VERIF_IL(6)
        VERIF_IL(7)
        VERIF_IL(8)
        VERIF_IL(9)
        VERIF_IL(10)
        VERIF_IL(11)
        VERIF_IL(12)
        VERIF_IL(13)
        VERIF_IL(14)
        VERIF_IL(15)
    default:
        return with_ilist_impl(s, std::make_index_sequence<16>{}, f);
    }
#undef VERIF_IL
}

// contexts
struct no_ctx
{
};
struct src_ctx // copy / move forms and clone_joint need a source joint object (lives on the source allocator)
{
    fm::joint_ptr<owner, log_alloc> src;
};
template <class A>
struct host_ctx // stand-alone joint_array: host joint object on the allocator under test + a source joint object
{
    fm::joint_ptr<owner, A>         host;
    fm::joint_ptr<owner, log_alloc> src;
    char*                           top0;
};
template <class A>
struct prep_src
{
    static no_ctx prep(A&, src_env& s, const case_id& c)
    {
        s.fill(c.n);
        return no_ctx{};
    }
};
struct bv_ctx // source joint object with a by-value constructor (for clone_joint)
{
    fm::joint_ptr<bv_owner, log_alloc> src;
};
template <class A>
struct prep_bv_owner
{
    static bv_ctx prep(A&, src_env& s, const case_id& c)
    {
        s.fill(1);
        return bv_ctx{fm::allocate_joint<bv_owner>(s.alloc, fm::joint_size(joint_cap(c)), std::move(s.elems[0]),
                                                   f_size{}, std::size_t(c.n))};
    }
};
template <class A>
struct prep_src1 // at least one source element
{
    static no_ctx prep(A&, src_env& s, const case_id& c)
    {
        s.fill(c.n > 1 ? c.n : 1);
        return no_ctx{};
    }
};
template <class A>
struct prep_owner
{
    static src_ctx prep(A&, src_env& s, const case_id& c)
    {
        return src_ctx{fm::allocate_joint<owner>(s.alloc, fm::joint_size(joint_cap(c)), f_size{}, std::size_t(c.n))};
    }
};
template <class A>
struct prep_host
{
    static host_ctx<A> prep(A& a, src_env& s, const case_id& c)
    {
        s.fill(c.n);
        host_ctx<A> x{fm::allocate_joint<owner>(a, fm::joint_size(joint_cap(c)), f_size{}, std::size_t(0)),
                      fm::allocate_joint<owner>(s.alloc, fm::joint_size(joint_cap(c)), f_size{}, std::size_t(c.n)),
                      nullptr};
        x.top0 = fm::detail::get_stack(*x.host).top();
        return x;
    }
};
// observation only: is the joint stack's top restored when a stand-alone joint_array constructor throws?
template <class A>
struct top_obs
{
    host_ctx<A>& x;
    int          exc = std::uncaught_exceptions();
    ~top_obs()
    {
        if (std::uncaught_exceptions() > exc)
            (fm::detail::get_stack(*x.host).top() == x.top0 ? g_obs_top_restored : g_obs_top_not_restored)++;
    }
};

static int pts_one(int)
{
    return 1;
}
static int pts_n(int n)
{
    return n;
}
static int pts_n1(int n)
{
    return n + 1;
}
static std::size_t need_elem(int, int)
{
    return sizeof(elem);
}
static std::size_t need_shared(int, int)
{
    return 128; // control block + element (over-approximation)
}
static int pts_n3(int n)
{
    return n + 3; // parameter, member initialised from it, n array elements, constructor body
}
static std::size_t need_joint_bv(int n, int slack)
{
    return sizeof(bv_owner) + std::size_t(n) * sizeof(elem) + std::size_t(slack);
}
static std::size_t need_joint(int n, int slack)
{
    return sizeof(owner) + std::size_t(n) * sizeof(elem) + std::size_t(slack);
}

// one helper = a local struct with the armed call; the body must call W.go() right before the library call
#define HELPER(NAME, NMIN, NMAX, THROWING, POINTS, NEED, SLACK, PREP, CTX, EA, PTS, EE, ...)                       \
    HELPER_T(NAME, NMIN, NMAX, THROWING, POINTS, NEED, SLACK, PREP, CTX, EA, PTS, EE, 0, __VA_ARGS__)
#define HELPER_T(NAME, NMIN, NMAX, THROWING, POINTS, NEED, SLACK, PREP, CTX, EA, PTS, EE, TEMPS, ...)              \
    {                                                                                                              \
        struct H                                                                                                   \
        {                                                                                                          \
            static auto create(A& a, src_env& s, CTX& x, const case_id& c)                                         \
            {                                                                                                      \
                const std::size_t n = std::size_t(c.n);                                                            \
                (void)n;                                                                                           \
                __VA_ARGS__                                                                                        \
            }                                                                                                      \
            static void run(const case_id& c, verdict& v)                                                          \
            {                                                                                                      \
                thunks<Fix, PREP, H>::run(c, v, EA, PTS, EE, TEMPS);                                                     \
            }                                                                                                      \
        };                                                                                                         \
        out.push_back({NAME, NMIN, NMAX, THROWING, POINTS, NEED, &H::run, SLACK});                                 \
    }
// single objects: one construction
#define SINGLE(NAME, NEED, ...)                                                                                    \
    HELPER(NAME, 1, 1, true, pts_one, NEED, false, prep_src<A>, no_ctx, 1, 1, 1, W.go(); return __VA_ARGS__;)
// single objects, argument value categories; THROWING = the constructor that actually runs can throw
#define SINGLE_VC(NAME, THROWING, NEED, ...)                                                                       \
    HELPER(NAME, 1, 1, THROWING, pts_one, NEED, false, prep_src<A>, no_ctx, 1, 1, 1, W.go(); return __VA_ARGS__;)
// arrays through allocate_unique<T[]>
#define ARRAY(NAME, THROWING, ...)                                                                                 \
    HELPER(NAME, 0, 16, THROWING, pts_n, need_elem, false, prep_src<A>, no_ctx, 1, c.n, c.n, W.go();               \
           return __VA_ARGS__;)
// joint objects: n element constructions + the body of the joint type's constructor
#define JOINT(NAME, ...)                                                                                           \
    HELPER(NAME, 0, 16, true, pts_n1, need_joint, true, prep_src<A>, no_ctx, 1, c.n + 1, c.n, __VA_ARGS__)
#define JOINT2(NAME, ...)                                                                                          \
    HELPER(NAME, 0, 16, true, pts_n1, need_joint, true, prep_owner<A>, src_ctx, 1, c.n + 1, c.n, W.go();           \
           return __VA_ARGS__;)
// joint objects whose constructor takes an element by value: points = parameter + member initialised from it + n array
// elements + body; n + 1 elements stay alive (member + array), one temporary (the parameter)
#define JOINT_BV(NAME, NMIN, NMAX, PREP, CTX, ...)                                                                 \
    HELPER_T(NAME, NMIN, NMAX, true, pts_n3, need_joint_bv, true, PREP, CTX, 1, c.n + 3, c.n + 1, 1, W.go();       \
             return __VA_ARGS__;)
// scoped: creation and release (joint_ptr destructor -> reset()) inside one function, as user code does; with
// optimisation the compiler sees construction, destruction and the release in one scope
struct scoped_done
{
    void reset() noexcept {}
};
#define JOINT_SCOPED(NAME, NMAX, EE, ...)                                                                          \
    HELPER_T(NAME, 0, NMAX, true, pts_n1, need_joint, true, prep_src<A>, no_ctx, 1, c.n + 1, EE, -1, W.go(); {     \
        auto p = __VA_ARGS__;                                                                                      \
        (void)p;                                                                                                   \
    } return scoped_done{};)
// stand-alone joint_array over an existing joint object: memory of the host, no allocator call expected
#define JARR(NAME, ...)                                                                                            \
    HELPER(NAME, 0, 16, true, pts_n, need_joint, true, prep_host<A>, host_ctx<A>, 0, c.n, c.n, top_obs<A> obs{x};  \
           __VA_ARGS__)

template <class Fix>
static void add_helpers(std::vector<helper_entry>& out)
{
    using A        = typename Fix::alloc_type;
    using jarray_t = fm::joint_array<elem>;

#if !VERIF_EXC_SCOPED_ONLY
    //--- single objects: allocate_unique<T>(alloc, args...), type-erased variant, allocate_shared --------
    SINGLE("unique.default", need_elem, fm::allocate_unique<elem>(a))
    SINGLE("unique.value", need_elem, fm::allocate_unique<elem>(a, 7))
    SINGLE("unique.copy", need_elem, fm::allocate_unique<elem>(a, static_cast<const elem&>(s.elems[0])))
    SINGLE("unique.move", need_elem, fm::allocate_unique<elem>(a, std::move(s.elems[0])))
    if constexpr (Fix::any_ok)
    {
        SINGLE("unique_any.default", need_elem, fm::allocate_unique<elem>(fm::any_allocator{}, a))
        SINGLE("unique_any.value", need_elem, fm::allocate_unique<elem>(fm::any_allocator{}, a, 7))
        SINGLE("unique_any.copy", need_elem,
               fm::allocate_unique<elem>(fm::any_allocator{}, a, static_cast<const elem&>(s.elems[0])))
        SINGLE("unique_any.move", need_elem,
               fm::allocate_unique<elem>(fm::any_allocator{}, a, std::move(s.elems[0])))
    }
    SINGLE("shared.default", need_shared, fm::allocate_shared<elem>(a))
    SINGLE("shared.value", need_shared, fm::allocate_shared<elem>(a, 7))
    SINGLE("shared.copy", need_shared, fm::allocate_shared<elem>(a, static_cast<const elem&>(s.elems[0])))
    SINGLE("shared.move", need_shared, fm::allocate_shared<elem>(a, std::move(s.elems[0])))

    //--- argument value categories x mixed exception specifications (lvalue / const lvalue run the copy ctor,
    //    rvalue runs the move ctor; the failure is injected into the constructor that runs, if it can throw) ----
#define VALUE_CATEGORIES(PFX, NEED, CALL_MC, CALL_CM)                                                              \
    SINGLE_VC(PFX ".mc.lvalue", true, NEED, CALL_MC(s.mc[0]))                                                      \
    SINGLE_VC(PFX ".mc.const_lvalue", true, NEED, CALL_MC(static_cast<const elem_mc&>(s.mc[0])))                   \
    SINGLE_VC(PFX ".mc.rvalue", false, NEED, CALL_MC(std::move(s.mc[0])))                                          \
    SINGLE_VC(PFX ".cm.lvalue", false, NEED, CALL_CM(s.cm[0]))                                                     \
    SINGLE_VC(PFX ".cm.const_lvalue", false, NEED, CALL_CM(static_cast<const elem_cm&>(s.cm[0])))                  \
    SINGLE_VC(PFX ".cm.rvalue", true, NEED, CALL_CM(std::move(s.cm[0])))
#define U_MC(ARG) fm::allocate_unique<elem_mc>(a, ARG)
#define U_CM(ARG) fm::allocate_unique<elem_cm>(a, ARG)
#define UA_MC(ARG) fm::allocate_unique<elem_mc>(fm::any_allocator{}, a, ARG)
#define UA_CM(ARG) fm::allocate_unique<elem_cm>(fm::any_allocator{}, a, ARG)
#define S_MC(ARG) fm::allocate_shared<elem_mc>(a, ARG)
#define S_CM(ARG) fm::allocate_shared<elem_cm>(a, ARG)
    VALUE_CATEGORIES("unique", need_elem, U_MC, U_CM)
    if constexpr (Fix::any_ok)
    {
        VALUE_CATEGORIES("unique_any", need_elem, UA_MC, UA_CM)
    }
    VALUE_CATEGORIES("shared", need_shared, S_MC, S_CM)
#undef U_MC
#undef U_CM
#undef UA_MC
#undef UA_CM
#undef S_MC
#undef S_CM
#undef VALUE_CATEGORIES

    //--- arrays: allocate_unique<T[]>(alloc, n) ----------------------------------------------------------
    ARRAY("unique_array", true, fm::allocate_unique<elem[]>(a, n))
    ARRAY("unique_array_noexcept", false, fm::allocate_unique<elem_nx[]>(a, n))
    if constexpr (Fix::any_ok)
    {
        ARRAY("unique_array_any", true, fm::allocate_unique<elem[]>(fm::any_allocator{}, a, n))
        ARRAY("unique_array_any_noexcept", false, fm::allocate_unique<elem_nx[]>(fm::any_allocator{}, a, n))
    }

    //--- joint objects: allocate_joint / joint_ptr constructor with every joint_array constructor form ----
    JOINT("joint.size", W.go(); return fm::allocate_joint<owner>(a, fm::joint_size(joint_cap(c)), f_size{}, n);)
    JOINT("joint_ptr_ctor.size", W.go();
          return fm::joint_ptr<owner, A>(a, fm::joint_size(joint_cap(c)), f_size{}, n);)
    JOINT("joint.size_value", const elem proto(55); W.go();
          return fm::allocate_joint<owner>(a, fm::joint_size(joint_cap(c)), f_size_value{}, n, proto);)
    JOINT("joint.ilist", return with_ilist(s.elems, [&](std::initializer_list<elem> il) {
              W.go();
              return fm::allocate_joint<owner>(a, fm::joint_size(joint_cap(c)), f_ilist{}, il);
          });)
    JOINT("joint.range_copy", const elem* b = s.elems.data(); W.go();
          return fm::allocate_joint<owner>(a, fm::joint_size(joint_cap(c)), f_range{}, b, b + n);)
    JOINT("joint.range_value", int* b = s.ints.data(); W.go();
          return fm::allocate_joint<owner>(a, fm::joint_size(joint_cap(c)), f_range{}, b, b + n);)
    JOINT("joint.range_move", auto b = std::make_move_iterator(s.elems.data()); W.go();
          return fm::allocate_joint<owner>(a, fm::joint_size(joint_cap(c)), f_range{}, b, b + std::ptrdiff_t(n));)
    JOINT2("joint.copy",
           fm::allocate_joint<owner>(a, fm::joint_size(joint_cap(c)), static_cast<const owner&>(*x.src)))
    JOINT2("joint.move", fm::allocate_joint<owner>(a, fm::joint_size(joint_cap(c)), std::move(*x.src)))
    JOINT2("clone_joint", fm::clone_joint(a, *x.src))

#endif // !VERIF_EXC_SCOPED_ONLY
    //--- scoped: create and release inside one function (also built as h_exc_o2 with -O2) ----------------------
    JOINT_SCOPED("joint_scoped.size", 16, c.n, fm::allocate_joint<owner>(a, fm::joint_size(joint_cap(c)), f_size{}, n))
    // no instrumented member: the n "elements" are only capacity, the single failure point is the constructor body
    HELPER_T("joint_scoped.plain", 0, 16, true, pts_one, need_joint, true, prep_src<A>, no_ctx, 1, 1, 0, -1, W.go(); {
        auto p = fm::allocate_joint<plain_owner>(a, fm::joint_size(joint_cap(c)), 3);
        (void)p;
    } return scoped_done{};)
    HELPER_T("joint_scoped.quiet", 0, 16, false, pts_zero, need_joint, true, prep_src<A>, no_ctx, 1, 0, 0, -1, W.go(); {
        auto p = fm::allocate_joint<quiet_owner>(a, fm::joint_size(joint_cap(c)), 3);
        (void)p;
    } return scoped_done{};)
#if !VERIF_EXC_SCOPED_ONLY
    HELPER_T("joint.plain", 0, 16, true, pts_one, need_joint, true, prep_src<A>, no_ctx, 1, 1, 0, 0, W.go();
             return fm::allocate_joint<plain_owner>(a, fm::joint_size(joint_cap(c)), 3);)

    //--- by-value constructor parameters: failure point BEFORE the joint_type base exists (k = 1) -------------
    JOINT_BV("joint_byvalue.lvalue", 0, 0, prep_src1<A>, no_ctx,
             fm::allocate_joint<bv_owner>(a, fm::joint_size(joint_cap(c)), s.elems[0]))
    JOINT_BV("joint_byvalue.const_lvalue", 0, 0, prep_src1<A>, no_ctx,
             fm::allocate_joint<bv_owner>(a, fm::joint_size(joint_cap(c)), static_cast<const elem&>(s.elems[0])))
    JOINT_BV("joint_byvalue.rvalue", 0, 0, prep_src1<A>, no_ctx,
             fm::allocate_joint<bv_owner>(a, fm::joint_size(joint_cap(c)), std::move(s.elems[0])))
    JOINT_BV("joint_byvalue_more.lvalue", 0, 16, prep_src1<A>, no_ctx,
             fm::allocate_joint<bv_owner>(a, fm::joint_size(joint_cap(c)), s.elems[0], f_size{}, n))
    JOINT_BV("joint_byvalue_more.rvalue", 0, 16, prep_src1<A>, no_ctx,
             fm::allocate_joint<bv_owner>(a, fm::joint_size(joint_cap(c)), std::move(s.elems[0]), f_size{}, n))
    JOINT_BV("joint_ptr_ctor_byvalue_more.lvalue", 0, 16, prep_src1<A>, no_ctx,
             fm::joint_ptr<bv_owner, A>(a, fm::joint_size(joint_cap(c)), s.elems[0], f_size{}, n))
    JOINT_BV("clone_joint_byvalue", 0, 16, prep_bv_owner<A>, bv_ctx, fm::clone_joint(a, *x.src))

    //--- stand-alone joint_array built over an existing joint object ---------------------------------------
    JARR("jarr.size", W.go(); return std::make_unique<jarray_t>(n, *x.host);)
    JARR("jarr.size_value", const elem proto(55); W.go(); return std::make_unique<jarray_t>(n, proto, *x.host);)
    JARR("jarr.ilist", return with_ilist(s.elems, [&](std::initializer_list<elem> il) {
             W.go();
             return std::make_unique<jarray_t>(il, *x.host);
         });)
    JARR("jarr.range_copy", const elem* b = s.elems.data(); W.go();
         return std::make_unique<jarray_t>(b, b + n, *x.host);)
    JARR("jarr.range_value", int* b = s.ints.data(); W.go(); return std::make_unique<jarray_t>(b, b + n, *x.host);)
    JARR("jarr.range_move", auto b = std::make_move_iterator(s.elems.data()); W.go();
         return std::make_unique<jarray_t>(b, b + std::ptrdiff_t(n), *x.host);)
    JARR("jarr.copy", W.go(); return std::make_unique<jarray_t>(static_cast<const jarray_t&>(x.src->arr), *x.host);)
    JARR("jarr.move", W.go(); return std::make_unique<jarray_t>(std::move(x.src->arr), *x.host);)
#endif // !VERIF_EXC_SCOPED_ONLY
}
#undef SINGLE
#undef SINGLE_VC
#undef ARRAY
#undef JOINT
#undef JOINT2
#undef JARR
#undef JOINT_BV
#undef JOINT_SCOPED
#undef HELPER_T
#undef HELPER

//=== library handlers =====================================================================================//
static void h_leak(const fm::allocator_info& info, std::ptrdiff_t amount)
{
    W.lib_reports.push_back({"library-leak-report", fmt("leak handler: %s reports %lld bytes", info.name,
                                                        (long long)amount)});
}
static void h_invalid(const fm::allocator_info& info, const void*)
{
    W.lib_reports.push_back({"library-invalid-pointer", fmt("invalid pointer handler called by %s", info.name)});
    std::abort();
}
static void h_overflow(const void*, std::size_t size, const void*)
{
    W.lib_reports.push_back({"library-buffer-overflow", fmt("buffer overflow handler called (block size %zu)", size)});
    std::abort();
}

//=== running ==============================================================================================//
static bool g_isolate = false; // run every case in a forked child
static bool g_isolate_set(const std::string& name)
{
    return g_isolate = name == "heap";
}
struct fixture_entry
{
    std::string               name;
    std::size_t               max_node;
    std::size_t               pool_node, pool_block; // only for the pool fixtures
    std::vector<helper_entry> helpers;
};
static std::vector<fixture_entry> FIX;

template <class Fix>
static void add_fixture(const char* name, std::size_t max_node, std::size_t pool_node = 0, std::size_t pool_block = 0)
{
    fixture_entry f;
    f.name       = name;
    f.max_node   = max_node;
    f.pool_node  = pool_node;
    f.pool_block = pool_block;
    add_helpers<Fix>(f.helpers);
    FIX.push_back(std::move(f));
}
static void select_fixture(const fixture_entry& f)
{
    g_isolate_set(f.name);
    if (f.pool_node)
    {
        g_pool_node  = f.pool_node;
        g_pool_block = f.pool_block;
    }
}

static int guarded_run(const helper_entry* h, const case_id* c, verdict* v)
{
    int out = OUT_OK;
    VERIF_GUARDED(out, h->run(*c, *v));
    return out;
}

// std::terminate() inside a run (e.g. an exception hitting a noexcept boundary inside the library instead of
// propagating) is recorded and contained like an abort
static volatile int g_terminate_calls = 0;
static void         h_terminate()
{
    g_terminate_calls = g_terminate_calls + 1;
    guard_escape(OUT_ABORTED);
}

static void run_case(const helper_entry& h, const case_id& c, verdict& v)
{
    int term0 = g_terminate_calls;
    int out   = guarded_run(&h, &c, &v);
    if (out != OUT_OK)
    {
        W.disarm();
        if (g_terminate_calls != term0)
            v.add("terminate-instead-of-exception",
                  fmt("std::terminate() was called %d constructions into the armed window%s: the constructor's "
                      "exception did not propagate out of the helper",
                      W.ops, W.failing_kind >= 0 ? fmt(" (after the injected %s failure)", okind_name(W.failing_kind)).c_str() : ""));
        else
            v.add(std::string("run-") + outcome_name(out),
                  fmt("the run did not return normally: %s (%d constructions into the armed window)", outcome_name(out),
                      W.ops));
        for (auto& r : W.lib_reports)
            v.add(r.tag, r.detail);
        v.outcome = outcome_name(out);
    }
}

// Runs one case in a forked child (used for the heap fixture: a wrong release can corrupt the process heap, which
// cannot be contained in-process). The child sends its verdict through a pipe.
static std::string flat(std::string s)
{
    for (auto& ch : s)
        if (ch == '\n' || ch == '\t')
            ch = ' ';
    return s;
}
static void run_case_isolated(const helper_entry& h, const case_id& c, verdict& v)
{
    int fd[2];
    if (pipe(fd) != 0)
    {
        run_case(h, c, v);
        return;
    }
    std::fflush(nullptr);
    itimerval timers[2];
    std::memset(timers, 0, sizeof timers);
    getitimer(ITIMER_REAL, &timers[0]);
    getitimer(ITIMER_PROF, &timers[1]);
    pid_t pid = fork();
    if (pid == 0)
    {
        close(fd[0]);
        // interval timers are not inherited: re-arm the engine's hang detector (whichever timer it uses)
        for (int w = 0; w != 2; ++w)
            if (timers[w].it_interval.tv_sec || timers[w].it_interval.tv_usec)
            {
                itimerval it;
                it.it_interval = timers[w].it_interval;
                it.it_value    = timers[w].it_interval;
                setitimer(w == 0 ? ITIMER_REAL : ITIMER_PROF, &it, nullptr);
            }
        verdict cv;
        run_case(h, c, cv);
        std::string out = "O\t" + cv.outcome + "\n" + fmt("N\t%d\t%d\n", cv.nontrivial ? 1 : 0, W.failing_kind);
        out += fmt("B\t%ld\t%ld\t%ld\t%ld\n", g_obs_top_restored, g_obs_top_not_restored, g_obs_any_n1_node,
                   g_obs_any_n1_array);
        out += "K";
        for (int i = 0; i != 6; ++i)
            out += fmt("\t%ld", W.kinds[i]);
        out += "\n";
        for (auto& i : cv.v)
            out += "V\t" + flat(i.tag) + "\t" + flat(i.detail) + "\n";
        for (auto& l : cv.trace)
            out += "T\t" + flat(l) + "\n";
        out += "E\n";
        std::size_t off = 0;
        while (off < out.size())
        {
            ssize_t w = write(fd[1], out.data() + off, out.size() - off);
            if (w <= 0)
                break;
            off += std::size_t(w);
        }
        close(fd[1]);
        std::_Exit(0);
    }
    close(fd[1]);
    std::string in;
    char        buf[4096];
    for (;;)
    {
        ssize_t r = read(fd[0], buf, sizeof buf);
        if (r > 0)
            in.append(buf, std::size_t(r));
        else if (r == 0 || errno != EINTR)
            break;
    }
    close(fd[0]);
    int status = 0;
    while (pid > 0 && waitpid(pid, &status, 0) < 0 && errno == EINTR)
    {
    }
    bool complete = false;
    long obs[4]   = {g_obs_top_restored, g_obs_top_not_restored, g_obs_any_n1_node, g_obs_any_n1_array};
    std::size_t pos = 0;
    while (pos < in.size())
    {
        std::size_t e = in.find('\n', pos);
        if (e == std::string::npos)
            break;
        std::string line = in.substr(pos, e - pos);
        pos              = e + 1;
        if (line == "E")
            complete = true;
        else if (line.size() > 2 && line[0] == 'O')
            v.outcome = line.substr(2);
        else if (line[0] == 'N')
        {
            int nt = 0, fk = -1;
            std::sscanf(line.c_str() + 2, "%d\t%d", &nt, &fk);
            v.nontrivial   = nt != 0;
            W.failing_kind = fk;
        }
        else if (line[0] == 'B')
            std::sscanf(line.c_str() + 2, "%ld\t%ld\t%ld\t%ld", &obs[0], &obs[1], &obs[2], &obs[3]);
        else if (line[0] == 'K')
            std::sscanf(line.c_str() + 2, "%ld\t%ld\t%ld\t%ld\t%ld\t%ld", &W.kinds[0], &W.kinds[1], &W.kinds[2],
                        &W.kinds[3], &W.kinds[4], &W.kinds[5]);
        else if (line[0] == 'V')
        {
            std::size_t t = line.find('\t', 2);
            if (t != std::string::npos)
                v.add(line.substr(2, t - 2), line.substr(t + 1));
        }
        else if (line[0] == 'T')
            v.trace.push_back(line.substr(2));
    }
    if (complete)
    {
        g_obs_top_restored     = obs[0];
        g_obs_top_not_restored = obs[1];
        g_obs_any_n1_node      = obs[2];
        g_obs_any_n1_array     = obs[3];
    }
    else
    {
        v.outcome = "process-died";
        v.add("run-process-died",
              WIFSIGNALED(status) ?
                  fmt("the run killed its process with signal %d (e.g. the process heap was corrupted by a wrong release)",
                      WTERMSIG(status)) :
                  fmt("the run ended its process with status %d", WEXITSTATUS(status)));
    }
}
static void run_case_auto(const helper_entry& h, const case_id& c, verdict& v)
{
    if (g_isolate)
        run_case_isolated(h, c, v);
    else
        run_case(h, c, v);
}

static bool get_str(const std::string& js, const char* key, std::string& out)
{
    auto p = js.find(std::string("\"") + key + "\"");
    if (p == std::string::npos)
        return false;
    p = js.find(':', p);
    p = js.find('"', p);
    auto q = js.find('"', p + 1);
    if (p == std::string::npos || q == std::string::npos)
        return false;
    out = js.substr(p + 1, q - p - 1);
    return true;
}
static bool get_int(const std::string& js, const char* key, int& out)
{
    auto p = js.find(std::string("\"") + key + "\"");
    if (p == std::string::npos)
        return false;
    p   = js.find(':', p);
    out = std::atoi(js.c_str() + p + 1);
    return true;
}

static std::string issues_text(const verdict& v)
{
    std::string s;
    for (auto& i : v.v)
        s += "[" + i.tag + "] " + i.detail + "; ";
    return s;
}

int main(int argc, char** argv)
{
    std::string which = "all", tier = "quick", outp, replay;
    for (int i = 1; i < argc; ++i)
    {
        std::string a = argv[i];
        auto        next = [&] { return i + 1 < argc ? std::string(argv[++i]) : std::string(); };
        if (a == "--alloc")
            which = next();
        else if (a == "--tier")
            tier = next();
        else if (a == "--out")
            outp = next();
        else if (a == "--replay")
            replay = next();
        else
        {
            std::fprintf(stderr, "unknown argument %s\n", a.c_str());
            return 2;
        }
    }
    double t0 = now_s();
    install_guards(5000);
    std::set_terminate(h_terminate);
    auto prev_leak = fm::set_leak_handler(h_leak);
    fm::set_invalid_pointer_handler(h_invalid);
    fm::set_buffer_overflow_handler(h_overflow);

    add_fixture<fix_log>("log", std::size_t(-1));
    add_fixture<fix_pool>("pool", 512, 512, 16384);
    add_fixture<fix_pool>("pool16", 16, 16, 4096);
    add_fixture<fix_stack>("stack", 4096);
    add_fixture<fix_heap>("heap", std::size_t(-1));

    if (!replay.empty())
    {
        case_id c;
        if (!get_str(replay, "alloc", c.alloc) || !get_str(replay, "helper", c.helper) || !get_int(replay, "n", c.n)
            || !get_int(replay, "k", c.k))
        {
            std::fprintf(stderr, "bad replay input %s\n", replay.c_str());
            return 2;
        }
        get_int(replay, "slack", c.slack);
        g_verbose = true;
        for (auto& f : FIX)
            if (f.name == c.alloc)
                for (auto& h : f.helpers)
                    if (h.name == c.helper)
                    {
                        select_fixture(f);
                        verdict v;
                        run_case_auto(h, c, v);
                        std::printf("case %s\noutcome: %s\n", c.json().c_str(), v.outcome.c_str());
                        for (auto& l : v.trace)
                            std::printf("  %s\n", l.c_str());
                        for (auto& i : v.v)
                            std::printf("VIOLATED [%s] %s\n", i.tag.c_str(), i.detail.c_str());
                        std::printf("%s\n", v.v.empty() ? "no violation" : "violation");
                        return v.v.empty() ? 0 : 1;
                    }
        std::fprintf(stderr, "no such allocator/helper: %s\n", replay.c_str());
        return 2;
    }

    std::vector<int> slacks = {0};
    if (tier == "thorough")
        slacks = {0, 8, 40};

    long                  evaluations = 0, excluded = 0, successes = 0, rollbacks = 0;
    std::set<std::string> distinct;
    std::map<std::string, long> per_helper;
    std::map<std::string, long> fail_kinds;
    jarr                  samples, viol, herr;
    int                   nsamples = 0, nviol = 0;
    std::set<std::string> viol_tags;

    for (auto& f : FIX)
    {
        if (which != "all" && which != f.name)
            continue;
        select_fixture(f);
        for (auto& h : f.helpers)
            for (int slack : slacks)
            {
                if (slack != 0 && !h.uses_slack)
                    continue;
                for (int n = h.nmin; n <= h.nmax; ++n)
                {
                    if (h.need(n, slack) > f.max_node)
                    {
                        // documented precondition: node size must not exceed the pool's node size
                        excluded += (h.throwing ? h.points(n) : 0) + 1;
                        continue;
                    }
                    int kmax = h.throwing ? h.points(n) : 0;
                    for (int k = 0; k <= kmax; ++k)
                    {
                        case_id c;
                        c.alloc  = f.name;
                        c.helper = h.name;
                        c.n      = n;
                        c.k      = k;
                        c.slack  = slack;
                        verdict v;
                        run_case_auto(h, c, v);
                        ++evaluations;
                        ++per_helper[h.name];
                        if (v.outcome == "success")
                            ++successes;
                        else if (v.outcome == "rollback")
                        {
                            ++rollbacks;
                            ++fail_kinds[okind_name(W.failing_kind >= 0 ? W.failing_kind : K_DTOR)];
                        }
                        if (v.nontrivial)
                            distinct.insert(c.json());
                        if (!v.v.empty())
                        {
                            // re-check once: the verdict must be reproducible
                            verdict v2;
                            run_case_auto(h, c, v2);
                            std::set<std::string> t1, t2;
                            for (auto& i : v.v)
                                t1.insert(i.tag);
                            for (auto& i : v2.v)
                                t2.insert(i.tag);
                            if (t1 != t2)
                            {
                                herr.str("verdict not reproducible for " + c.json() + ": " + issues_text(v) + " vs "
                                         + issues_text(v2));
                                continue;
                            }
                            for (auto& i : v.v)
                            {
                                ++nviol;
                                // report every tag once per helper, capped
                                std::string key = i.tag + "|" + h.name;
                                if (viol_tags.count(key) || viol_tags.size() >= 60)
                                    continue;
                                viol_tags.insert(key);
                                std::string tr;
                                for (auto& l : v.trace)
                                    tr += l + "\n";
                                viol.raw(jobj()
                                             .str("tag", i.tag)
                                             .str("detail", c.helper + " on " + c.alloc + fmt(" n=%d k=%d: ", c.n, c.k)
                                                                + i.detail)
                                             .raw("input", c.json())
                                             .done());
                            }
                        }
                        else if (nsamples < 6 && v.nontrivial && (k == kmax || k == 0) && n == 3)
                        {
                            ++nsamples;
                            verdict vs;
                            g_verbose = true;
                            run_case_auto(h, c, vs);
                            g_verbose = false;
                            jarr tr;
                            for (auto& l : vs.trace)
                                tr.str(l);
                            samples.raw(jobj().raw("case", c.json()).str("outcome", vs.outcome).raw("log", tr.done()).done());
                        }
                    }
                }
            }
    }

    jobj extra;
    extra.num("success_runs", successes).num("rollback_runs", rollbacks).num("violating_checks", nviol);
    {
        jobj ph;
        for (auto& kv : per_helper)
            ph.num(kv.first, kv.second);
        extra.raw("runs_per_helper", ph.done());
        jobj fk;
        for (auto& kv : fail_kinds)
            fk.num(kv.first, kv.second);
        extra.raw("rollbacks_per_failing_operation", fk.done());
        jobj ok;
        for (int i = 0; i != 6; ++i)
            ok.num(okind_name(i), W.kinds[i]);
        extra.raw("element_operations_total", ok.done());
        extra.raw("observations",
                  jobj()
                      .num("standalone_joint_array_failed_stack_top_restored", g_obs_top_restored)
                      .num("standalone_joint_array_failed_stack_top_not_restored", g_obs_top_not_restored)
                      .num("type_erased_array_n1_allocated_as_node", g_obs_any_n1_node)
                      .num("type_erased_array_n1_allocated_as_array", g_obs_any_n1_array)
                      .done());
        extra.num("debug_assert", FOONATHAN_MEMORY_DEBUG_ASSERT).num("debug_fence", FOONATHAN_MEMORY_DEBUG_FENCE);
    }

    jobj o;
    o.num("evaluations", evaluations)
        .num("distinct_nontrivial", (long long)distinct.size())
        .str("rule",
             "one run per (allocator fixture, helper / joint_array constructor form, array length n in 0..16 "
             "[single objects n=1], capacity slack, failing construction index k in 1..points plus k=0 success run), "
             "points = n element constructions (+1 for the body of the joint type's constructor); a run is "
             "non-trivial when at least one construction step or allocator call happened inside the armed window; "
             "distinct = distinct (allocator, helper, n, k, slack) tuples that reached the oracle")
        .raw("samples", samples.done())
        .boolean("exhaustive", true)
        .num("excluded", excluded)
        .dbl("wall_s", now_s() - t0)
        .raw("violations", viol.done())
        .raw("harness_errors", herr.done())
        .raw("extra", extra.done());
    std::string js = o.done();
    if (outp.empty())
        std::printf("%s\n", js.c_str());
    else
    {
        FILE* f = std::fopen(outp.c_str(), "w");
        if (!f)
            return 2;
        std::fputs(js.c_str(), f);
        std::fputs("\n", f);
        std::fclose(f);
    }
    fm::set_leak_handler(prev_leak);
    return 0;
}

#endif
