// C19: size and alignment arithmetic is correct for every input.
//
// Exhaustive enumeration of stated finite input classes of the library's arithmetic helpers
//   round_up_to_multiple_of_alignment, align_offset (integer + pointer form), is_aligned, alignment_for,
//   ilog2, ilog2_ceil, identity_access_policy / log2_access_policy (index_from_size, size_from_index)
// and of bucket selection through real detail::free_list_array<FreeList, AccessPolicy> objects,
// each result compared with a definitional reference computed with division / loops in unsigned __int128.
//
//   h_arith --tier quick|thorough --out <file>
//   h_arith --replay '{"f":"round_up","x":17,"a":8}'
//   h_arith --replay '{"f":"bucket","list":"free","policy":"log2","max":4096,"x":17}'
#include "../engine/core.hpp"

#include <cstddef>
#include <map>
#include <set>
#include <string>
#include <vector>

#include <foonathan/memory/detail/align.hpp>
#include <foonathan/memory/detail/free_list.hpp>
#include <foonathan/memory/detail/free_list_array.hpp>
#include <foonathan/memory/detail/ilog2.hpp>
#include <foonathan/memory/detail/memory_stack.hpp>
#include <foonathan/memory/detail/small_free_list.hpp>

namespace fm = foonathan::memory;
namespace fd = foonathan::memory::detail;
using verif::u64;
typedef unsigned __int128 u128;
typedef __int128          i128;

//=== cases ===//
enum fn_id
{
    F_ROUND_UP,
    F_ALIGN_OFFSET,
    F_ALIGN_OFFSET_PTR,
    F_IS_ALIGNED,
    F_ALIGNMENT_FOR,
    F_ILOG2,
    F_ILOG2_CEIL,
    F_ID_INDEX,
    F_ID_SIZE,
    F_LOG2_SIZE,
    F_LOG2_INDEX,
    F_LOG2_ROUNDTRIP,
    F_BUCKET,
    F_COUNT
};
static const char* const FNAME[F_COUNT] = {"round_up",
                                           "align_offset",
                                           "align_offset_ptr",
                                           "is_aligned",
                                           "alignment_for",
                                           "ilog2",
                                           "ilog2_ceil",
                                           "identity_index_from_size",
                                           "identity_size_from_index",
                                           "log2_size_from_index",
                                           "log2_index_from_size",
                                           "log2_roundtrip",
                                           "bucket"};
static const char* const LIST_NAME[3]   = {"free", "ordered", "small"};
static const char* const POLICY_NAME[2] = {"identity", "log2"};
enum
{
    P_IDENTITY = 0,
    P_LOG2     = 1
};

struct acase
{
    int f;
    u64 x;      // value / size / address / index
    u64 a;      // alignment (functions taking one), else 0
    int list;   // bucket: 0 free_memory_list 1 ordered_free_memory_list 2 small_free_memory_list
    int policy; // bucket: 0 identity 1 log2
    u64 max;    // bucket: max_node_size the array was created with
};

enum
{
    ST_OK       = 0,
    ST_VIOL     = 1,
    ST_EXCLUDED = 2
};

static bool takes_alignment(int f)
{
    return f == F_ROUND_UP || f == F_ALIGN_OFFSET || f == F_ALIGN_OFFSET_PTR || f == F_IS_ALIGNED;
}

static std::string u128_str(u128 v)
{
    if (v == 0)
        return "0";
    std::string s;
    while (v)
    {
        s.insert(s.begin(), char('0' + int(v % 10)));
        v /= 10;
    }
    return s;
}

static std::string case_json(const acase& c)
{
    verif::jobj o;
    o.str("f", FNAME[c.f]);
    o.raw("x", std::to_string(c.x));
    if (takes_alignment(c.f))
        o.raw("a", std::to_string(c.a));
    if (c.f == F_BUCKET)
    {
        o.str("list", LIST_NAME[c.list]);
        o.str("policy", POLICY_NAME[c.policy]);
        o.raw("max", std::to_string(c.max));
    }
    return o.done();
}

//=== definitional references (no bit tricks: division, remainder, loops; 128 bit where a result can exceed 64 bit) ===//
static inline int ref_floor_log2(u64 x) // x >= 1: largest k with 2^k <= x
{
    int  k = 0;
    u128 p = 1;
    while (p * 2 <= x)
    {
        p *= 2;
        ++k;
    }
    return k;
}
static inline int ref_ceil_log2(u64 x) // x >= 1: smallest k with 2^k >= x
{
    int  k = 0;
    u128 p = 1;
    while (p < x)
    {
        p *= 2;
        ++k;
    }
    return k;
}
static inline u64 ref_alignment_for(u64 s) // s >= 1: largest power of two dividing s, capped
{
    const u64 cap = alignof(std::max_align_t);
    u64       p   = 1;
    while (p < cap && s % (p * 2) == 0)
        p *= 2;
    return p;
}

//=== evaluation of one pure case ===//
// returns ST_*; nontriv: expected result is not the identity / trivial answer; why (optional): human text
static int eval_pure(const acase& c, bool& nontriv, std::string* why)
{
    const u64 x = c.x, a = c.a;
    nontriv = false;
    switch (c.f)
    {
    case F_ROUND_UP:
    {
        u64  r    = x % a;
        u128 want = r == 0 ? u128(x) : (u128(x / a) + 1) * a; // least multiple of a that is >= x
        if (want > u128(~u64(0)))
        {
            if (why)
                *why = "least multiple " + u128_str(want) + " does not fit in size_t: excluded";
            return ST_EXCLUDED;
        }
        nontriv = r != 0;
        u64 got = fd::round_up_to_multiple_of_alignment(std::size_t(x), std::size_t(a));
        if (why)
            *why = verif::fmt("round_up_to_multiple_of_alignment(%llu, %llu) = %llu, least multiple >= x is %s",
                              (unsigned long long)x, (unsigned long long)a, (unsigned long long)got,
                              u128_str(want).c_str());
        return got == u64(want) ? ST_OK : ST_VIOL;
    }
    case F_ALIGN_OFFSET:
    case F_ALIGN_OFFSET_PTR:
    {
        u64 want = (a - x % a) % a; // least d >= 0 with (x + d) divisible by a
        nontriv  = want != 0;
        u64 got  = c.f == F_ALIGN_OFFSET ? fd::align_offset(std::uintptr_t(x), std::size_t(a)) :
                                           fd::align_offset(reinterpret_cast<void*>(x), std::size_t(a));
        if (why)
            *why = verif::fmt("align_offset(%s%llu, %llu) = %llu, least non-negative adjustment is %llu",
                              c.f == F_ALIGN_OFFSET ? "" : "(void*)", (unsigned long long)x,
                              (unsigned long long)a, (unsigned long long)got, (unsigned long long)want);
        return got == want ? ST_OK : ST_VIOL;
    }
    case F_IS_ALIGNED:
    {
        bool want = x % a == 0;
        nontriv   = a > 1;
        bool got  = fd::is_aligned(reinterpret_cast<void*>(x), std::size_t(a));
        if (why)
            *why = verif::fmt("is_aligned((void*)%llu, %llu) = %d, address %% alignment == 0 is %d",
                              (unsigned long long)x, (unsigned long long)a, int(got), int(want));
        return got == want ? ST_OK : ST_VIOL;
    }
    case F_ALIGNMENT_FOR:
    {
        if (x == 0)
        {
            if (why)
                *why = "alignment_for(0): no largest power of two divides 0: excluded";
            return ST_EXCLUDED;
        }
        u64 want = ref_alignment_for(x);
        nontriv  = want != x;
        u64 got  = fd::alignment_for(std::size_t(x));
        if (why)
            *why = verif::fmt("alignment_for(%llu) = %llu, largest power of two dividing it capped at %llu is %llu",
                              (unsigned long long)x, (unsigned long long)got,
                              (unsigned long long)alignof(std::max_align_t), (unsigned long long)want);
        return got == want ? ST_OK : ST_VIOL;
    }
    case F_ILOG2:
    case F_ILOG2_CEIL:
    {
        if (x == 0)
        {
            if (why)
                *why = "log2(0) undefined: excluded";
            return ST_EXCLUDED;
        }
        int fl = ref_floor_log2(x), ce = ref_ceil_log2(x);
        nontriv  = fl != ce;
        u64 want = u64(c.f == F_ILOG2 ? fl : ce);
        u64 got  = c.f == F_ILOG2 ? fd::ilog2(x) : fd::ilog2_ceil(x);
        if (why)
            *why = verif::fmt("%s(%llu) = %llu, %s of log2 is %llu", FNAME[c.f], (unsigned long long)x,
                              (unsigned long long)got, c.f == F_ILOG2 ? "floor" : "ceiling",
                              (unsigned long long)want);
        return got == want ? ST_OK : ST_VIOL;
    }
    case F_ID_INDEX:
    case F_ID_SIZE:
    {
        u64 got = c.f == F_ID_INDEX ? fd::identity_access_policy::index_from_size(std::size_t(x)) :
                                      fd::identity_access_policy::size_from_index(std::size_t(x));
        if (why)
            *why = verif::fmt("identity_access_policy::%s(%llu) = %llu, expected %llu",
                              c.f == F_ID_INDEX ? "index_from_size" : "size_from_index",
                              (unsigned long long)x, (unsigned long long)got, (unsigned long long)x);
        return got == x ? ST_OK : ST_VIOL;
    }
    case F_LOG2_SIZE:
    {
        if (x >= 64)
        {
            if (why)
                *why = "2^index does not fit in size_t: excluded";
            return ST_EXCLUDED;
        }
        u64 want = 1;
        for (u64 i = 0; i < x; ++i)
            want *= 2;
        nontriv = x != 0;
        u64 got = fd::log2_access_policy::size_from_index(std::size_t(x));
        if (why)
            *why = verif::fmt("log2_access_policy::size_from_index(%llu) = %llu, 2^index is %llu",
                              (unsigned long long)x, (unsigned long long)got, (unsigned long long)want);
        return got == want ? ST_OK : ST_VIOL;
    }
    case F_LOG2_INDEX:
    {
        if (x == 0)
        {
            if (why)
                *why = "index_from_size(0): documented precondition size != 0: excluded";
            return ST_EXCLUDED;
        }
        int fl = ref_floor_log2(x), ce = ref_ceil_log2(x);
        nontriv = fl != ce;
        u64 got = fd::log2_access_policy::index_from_size(std::size_t(x));
        if (why)
            *why = verif::fmt("log2_access_policy::index_from_size(%llu) = %llu, ceiling of log2 is %d",
                              (unsigned long long)x, (unsigned long long)got, ce);
        return got == u64(ce) ? ST_OK : ST_VIOL;
    }
    case F_LOG2_ROUNDTRIP:
    {
        if (x == 0 || x > (u64(1) << 63))
        {
            if (why)
                *why = "size 0 / bucket size 2^64 not representable: excluded";
            return ST_EXCLUDED;
        }
        nontriv = ref_floor_log2(x) != ref_ceil_log2(x);
        u64 idx = fd::log2_access_policy::index_from_size(std::size_t(x));
        if (idx >= 64)
        {
            if (why)
                *why = verif::fmt("log2_access_policy::index_from_size(%llu) = %llu for a size <= 2^63",
                                  (unsigned long long)x, (unsigned long long)idx);
            return ST_VIOL;
        }
        u64 got = fd::log2_access_policy::size_from_index(std::size_t(idx));
        if (why)
            *why = verif::fmt("size_from_index(index_from_size(%llu)) = size_from_index(%llu) = %llu, must be in [size, 2*size)",
                              (unsigned long long)x, (unsigned long long)idx, (unsigned long long)got);
        return (got >= x && u128(got) < u128(x) * 2) ? ST_OK : ST_VIOL;
    }
    }
    return ST_OK;
}

//=== bucket selection through a real free_list_array ===//
static constexpr std::size_t   BUF_SIZE = std::size_t(1) << 20;
alignas(64) static char        g_buf[BUF_SIZE];

template <class FL, class AP>
struct bucket
{
    using array = fd::free_list_array<FL, AP>;

    // storage for the array object itself (so that a contained crash does not leave a half dead local)
    static array* make(u64 max_node_size)
    {
        alignas(array) static char obj[sizeof(array)];
        std::memset(g_buf, 0, BUF_SIZE);
        fd::fixed_memory_stack stack(g_buf);
        return ::new (static_cast<void*>(obj)) array(stack, g_buf + BUF_SIZE, std::size_t(max_node_size));
    }

    // tag receives "bucket_too_small" / "bucket_too_large" / "bucket_out_of_range"
    static int eval(const array& arr, int policy, u64 s, bool& nontriv, const char*& tag, std::string* why)
    {
        FL&  l   = arr.get(std::size_t(s));
        auto pos = reinterpret_cast<std::uintptr_t>(&l);
        auto beg = reinterpret_cast<std::uintptr_t>(arr.array_);
        if (arr.array_ == nullptr || pos < beg || pos >= beg + arr.no_elements_ * sizeof(FL)
            || (pos - beg) % sizeof(FL) != 0)
        {
            tag = "bucket_out_of_range";
            if (why)
                *why = verif::fmt("get(%llu) returns a list outside the array of %llu lists (byte offset %lld)",
                                  (unsigned long long)s, (unsigned long long)arr.no_elements_,
                                  (long long)(pos - beg));
            return ST_VIOL;
        }
        u64 got = l.node_size();
        u64 mn  = FL::min_element_size;
        nontriv = got != s;
        if (why)
            *why = verif::fmt("get(%llu).node_size() = %llu (list %llu of %llu, list minimum node size %llu)",
                              (unsigned long long)s, (unsigned long long)got,
                              (unsigned long long)((pos - beg) / sizeof(FL)),
                              (unsigned long long)arr.no_elements_, (unsigned long long)mn);
        if (got < s)
        {
            tag = "bucket_too_small";
            if (why)
                *why += ": nodes smaller than the size";
            return ST_VIOL;
        }
        if (policy == P_LOG2)
        {
            u64 base = s > mn ? s : mn;
            if (u128(got) >= u128(base) * 2)
            {
                tag = "bucket_too_large";
                if (why)
                    *why += ": nodes at least twice max(size, list minimum)";
                return ST_VIOL;
            }
        }
        return ST_OK;
    }
};

//=== accounting ===//
struct vrec
{
    std::string tag, detail, input;
};
static struct state_t
{
    u64  evals = 0, excluded = 0, distinct = 0, viol_total = 0;
    u64  per_fn[F_COUNT]      = {};
    u64  per_fn_excl[F_COUNT] = {};
    u64  per_fn_nontriv[F_COUNT] = {};
    u64  arrays_built = 0, array_lists_built = 0, largest_array_bytes = 0;
    bool complete = true;
    std::vector<char>          classes;
    std::map<std::string, u64> viol_count;
    std::vector<vrec>          viols;
    std::vector<std::string>   errors;
    std::string                sample[F_COUNT];
} S;

static acase CUR; // case being evaluated (for contained crashes)

static inline int bitlen(u64 v)
{
    return v ? 64 - __builtin_clzll(v) : 0;
}

static inline void note_class(const acase& c)
{
    int    sub = c.f == F_BUCKET ? c.list * 2 + c.policy : 0;
    int    e   = c.f == F_BUCKET ? bitlen(c.max) - 1 : (c.a ? __builtin_ctzll(c.a) : 0);
    size_t key = ((size_t(c.f) * 8 + size_t(sub)) * 64 + size_t(e)) * 65 + size_t(bitlen(c.x));
    if (!S.classes[key])
    {
        S.classes[key] = 1;
        ++S.distinct;
    }
}

static void add_violation(const std::string& tag, const std::string& detail, const acase& c)
{
    ++S.viol_total;
    if (++S.viol_count[tag] <= 3)
        S.viols.push_back({tag, detail, case_json(c)});
}

static void confirm_pure_violation(const acase& c)
{
    bool        nt;
    std::string why;
    int         st2 = eval_pure(c, nt, &why); // second run of the same case
    if (st2 != ST_VIOL)
    {
        S.errors.push_back("verdict not reproducible for " + case_json(c));
        return;
    }
    add_violation(FNAME[c.f], why, c);
}

static inline void run_pure(int f, u64 x, u64 a)
{
    acase c{f, x, a, 0, 0, 0};
    CUR = c;
    asm volatile("" ::: "memory");
    bool nt;
    int  st = eval_pure(c, nt, nullptr);
    if (st == ST_EXCLUDED)
    {
        ++S.excluded;
        ++S.per_fn_excl[f];
        return;
    }
    ++S.evals;
    ++S.per_fn[f];
    if (nt)
    {
        ++S.per_fn_nontriv[f];
        note_class(c);
        if (S.sample[f].empty() && x > 40)
        {
            std::string why;
            eval_pure(c, nt, &why);
            S.sample[f] = verif::jobj().raw("input", case_json(c)).str("observed", why).done();
        }
    }
    if (st == ST_VIOL)
        confirm_pure_violation(c);
}

static inline void heartbeat()
{
    auto& g = verif::guard();
    g.seq   = g.seq + 1;
}

static bool g_verbose   = false; // replay: print what is built
static bool g_small_max = false; // own arg --small-max: also max_node_size 1..7 (below the lists' minimum), see notes
static int  rerun_case_guarded(const acase& c, int& status);

template <class Body>
static void section(const char* name, Body body)
{
    int out = verif::OUT_OK;
    VERIF_GUARDED(out, body());
    if (out == verif::OUT_OK)
        return;
    // the library aborted / crashed / hung on a call inside its documented preconditions
    S.complete = false;
    static acase c;
    c = CUR;
    // second run of the same case alone
    int st2  = ST_OK;
    int out2 = rerun_case_guarded(c, st2);
    if (out2 == verif::OUT_OK && st2 != ST_VIOL)
    {
        S.errors.push_back(verif::fmt("library %s in section %s but not when the case is run alone: ",
                                      verif::outcome_name(out), name)
                           + case_json(c));
        return;
    }
    add_violation(std::string("abnormal_") + FNAME[c.f],
                  verif::fmt("library %s while evaluating this case (section %s), second run alone: %s; rest of the "
                             "section skipped",
                             verif::outcome_name(out), name,
                             out2 == verif::OUT_OK ? "wrong result" : verif::outcome_name(out2)),
                  c);
}

//=== bucket sweeps ===//
template <class FL, class AP>
static void sweep_array(int list, int policy, u64 M, const std::vector<u64>& boundary, u64 small_limit)
{
    using B = bucket<FL, AP>;
    CUR     = acase{F_BUCKET, M, 0, list, policy, M};
    asm volatile("" ::: "memory");
    auto* arr = B::make(M);
    ++S.arrays_built;
    S.array_lists_built += arr->no_elements_;
    if (arr->no_elements_ * sizeof(FL) > S.largest_array_bytes)
        S.largest_array_bytes = arr->no_elements_ * sizeof(FL);

    auto one = [&](u64 s) {
        acase c{F_BUCKET, s, 0, list, policy, M};
        CUR = c;
        asm volatile("" ::: "memory");
        bool        nt  = false;
        const char* tag = "";
        int         st  = B::eval(*arr, policy, s, nt, tag, nullptr);
        ++S.evals;
        ++S.per_fn[F_BUCKET];
        if (nt)
        {
            ++S.per_fn_nontriv[F_BUCKET];
            note_class(c);
            if (S.sample[F_BUCKET].empty() && policy == P_LOG2 && s > 40)
            {
                std::string why;
                B::eval(*arr, policy, s, nt, tag, &why);
                S.sample[F_BUCKET] = verif::jobj().raw("input", case_json(c)).str("observed", why).done();
            }
        }
        if (st == ST_VIOL)
        {
            std::string why;
            const char* tag2 = "";
            if (B::eval(*arr, policy, s, nt, tag2, &why) != ST_VIOL || std::string(tag2) != tag)
                S.errors.push_back("verdict not reproducible for " + case_json(c));
            else
                add_violation(tag, std::string(LIST_NAME[list]) + "/" + POLICY_NAME[policy]
                                       + verif::fmt(" max_node_size %llu: ", (unsigned long long)M) + why,
                              c);
        }
    };

    u64 lim = M < small_limit ? M : small_limit;
    for (u64 s = 1; s <= lim; ++s)
        one(s);
    if (M > lim)
    {
        for (u64 s : boundary)
            if (s > lim && s < M)
                one(s);
        one(M);
    }
    heartbeat();
}

template <class FL>
static void sweep_list(int list, const std::vector<u64>& small_max, const std::vector<u64>& large_max,
                       const std::vector<u64>& boundary, u64 small_limit)
{
    for (u64 M : small_max)
    {
        section("bucket/identity",
                [&] { sweep_array<FL, fd::identity_access_policy>(list, P_IDENTITY, M, boundary, small_limit); });
        section("bucket/log2", [&] { sweep_array<FL, fd::log2_access_policy>(list, P_LOG2, M, boundary, small_limit); });
    }
    for (u64 M : large_max)
    {
        if (M > (u64(1) << 63))
        {
            ++S.excluded; // bucket size 2^64 not representable
            ++S.per_fn_excl[F_BUCKET];
            continue;
        }
        section("bucket/log2-large",
                [&] { sweep_array<FL, fd::log2_access_policy>(list, P_LOG2, M, boundary, small_limit); });
    }
}

//=== replay ===//
static bool jget(const std::string& js, const char* key, std::string& out)
{
    auto p = js.find(std::string("\"") + key + "\"");
    if (p == std::string::npos)
        return false;
    p = js.find(':', p);
    if (p == std::string::npos)
        return false;
    ++p;
    while (p < js.size() && (js[p] == ' ' || js[p] == '\t'))
        ++p;
    out.clear();
    if (p < js.size() && js[p] == '"')
    {
        ++p;
        while (p < js.size() && js[p] != '"')
            out += js[p++];
    }
    else
        while (p < js.size() && js[p] >= '0' && js[p] <= '9')
            out += js[p++];
    return !out.empty();
}

template <class FL, class AP>
static int replay_bucket(const acase& c, std::string& why, const char*& tag)
{
    using B   = bucket<FL, AP>;
    auto* arr = B::make(c.max);
    if (g_verbose)
        std::printf("free_list_array<%s, %s>(max_node_size %llu): %llu lists, min_size_index %llu\n",
                    LIST_NAME[c.list], POLICY_NAME[c.policy], (unsigned long long)c.max,
                    (unsigned long long)arr->no_elements_, (unsigned long long)B::array::min_size_index);
    bool nt;
    return B::eval(*arr, c.policy, c.x, nt, tag, &why);
}

static int replay_bucket_dispatch(const acase& c, std::string& why, const char*& tag)
{
    switch (c.list * 2 + c.policy)
    {
    case 0:
        return replay_bucket<fd::free_memory_list, fd::identity_access_policy>(c, why, tag);
    case 1:
        return replay_bucket<fd::free_memory_list, fd::log2_access_policy>(c, why, tag);
    case 2:
        return replay_bucket<fd::ordered_free_memory_list, fd::identity_access_policy>(c, why, tag);
    case 3:
        return replay_bucket<fd::ordered_free_memory_list, fd::log2_access_policy>(c, why, tag);
    case 4:
        return replay_bucket<fd::small_free_memory_list, fd::identity_access_policy>(c, why, tag);
    default:
        return replay_bucket<fd::small_free_memory_list, fd::log2_access_policy>(c, why, tag);
    }
}

static int rerun_case_guarded(const acase& c, int& status)
{
    static int         st;
    static std::string why;
    static const char* tag;
    static acase       cc;
    cc      = c;
    st      = ST_OK;
    tag     = "";
    int out = verif::OUT_OK;
    VERIF_GUARDED(out, {
        bool nt;
        if (cc.f == F_BUCKET)
            st = replay_bucket_dispatch(cc, why, tag);
        else
            st = eval_pure(cc, nt, &why);
    });
    status = st;
    return out;
}

static int do_replay(const std::string& js)
{
    g_verbose = true;
    acase       c{};
    std::string v;
    if (!jget(js, "f", v))
    {
        std::printf("replay: no \"f\" in %s\n", js.c_str());
        return 2;
    }
    c.f = -1;
    for (int i = 0; i < F_COUNT; ++i)
        if (v == FNAME[i])
            c.f = i;
    if (c.f < 0 || !jget(js, "x", v))
    {
        std::printf("replay: bad case %s\n", js.c_str());
        return 2;
    }
    c.x = std::strtoull(v.c_str(), nullptr, 10);
    if (takes_alignment(c.f))
    {
        if (!jget(js, "a", v))
            return 2;
        c.a = std::strtoull(v.c_str(), nullptr, 10);
        if (!c.a || (c.a & (c.a - 1)))
        {
            std::printf("replay: alignment must be a power of two\n");
            return 2;
        }
    }
    if (c.f == F_BUCKET)
    {
        std::string l, p, m;
        if (!jget(js, "list", l) || !jget(js, "policy", p) || !jget(js, "max", m))
            return 2;
        c.list   = l == "free" ? 0 : l == "ordered" ? 1 : 2;
        c.policy = p == "identity" ? 0 : 1;
        c.max    = std::strtoull(m.c_str(), nullptr, 10);
        u64 mn   = c.list == 2 ? 1 : sizeof(char*);
        if (c.x == 0 || c.x > c.max || (c.max < mn && !g_small_max) || (c.policy == P_IDENTITY && c.max > 60000)
            || (c.policy == P_LOG2 && c.max > (u64(1) << 63)))
        {
            std::printf("replay: case outside the enumerated domain\n");
            return 2;
        }
    }
    verif::install_guards(10000);
    static int         st;
    static std::string why;
    static const char* tag;
    static acase       cc;
    cc  = c;
    st  = ST_OK;
    tag = FNAME[c.f];
    std::printf("case: %s\n", case_json(c).c_str());
    int out = verif::OUT_OK;
    VERIF_GUARDED(out, {
        bool nt;
        if (cc.f == F_BUCKET)
            st = replay_bucket_dispatch(cc, why, tag);
        else
            st = eval_pure(cc, nt, &why);
    });
    if (out != verif::OUT_OK)
    {
        std::printf("VIOLATION [abnormal_%s]: library %s on this case\n", FNAME[c.f], verif::outcome_name(out));
        return 1;
    }
    std::printf("%s\n", why.c_str());
    if (st == ST_EXCLUDED)
    {
        std::printf("excluded by rule\n");
        return 0;
    }
    if (st == ST_VIOL)
    {
        std::printf("VIOLATION [%s]\n", tag);
        return 1;
    }
    std::printf("ok\n");
    return 0;
}

//=== main ===//
int main(int argc, char** argv)
{
    std::string tier = "quick", out, replay;
    bool        have_replay = false;
    for (int i = 1; i < argc; ++i)
    {
        std::string a = argv[i];
        if (a == "--tier" && i + 1 < argc)
            tier = argv[++i];
        else if (a == "--out" && i + 1 < argc)
            out = argv[++i];
        else if (a == "--replay" && i + 1 < argc)
        {
            replay      = argv[++i];
            have_replay = true;
        }
        else if (a == "--small-max")
            g_small_max = true;
        else if (a == "--name" && i + 1 < argc)
            ++i;
    }
    if (have_replay)
        return do_replay(replay);

    const bool thorough = tier == "thorough";
    double     t0       = verif::now_s();
    verif::install_guards(30000);
    S.classes.assign(size_t(F_COUNT) * 8 * 64 * 65, 0);

    // --- domains ---
    const u64 SMALL = thorough ? (u64(1) << 20) : (u64(1) << 16); // complete small domain 0..SMALL (inclusive)
    const u64 LOGS  = thorough ? (u64(1) << 26) : (u64(1) << 20); // all values < LOGS for the logarithms
    const int D     = thorough ? 64 : 3;                          // boundary distance
    // boundary class: 2^k + d and 2^64 - 2^k + d (k = 0..63, |d| <= D) inside [0, 2^64), plus 0, 1, 2^64-1
    std::vector<u64> boundary;
    {
        std::set<u64> b;
        const i128    top = i128(1) << 64;
        for (int k = 0; k < 64; ++k)
            for (int d = -D; d <= D; ++d)
            {
                i128 v = (i128(1) << k) + d;
                if (v >= 0 && v < top)
                    b.insert(u64(v));
                v = top - (i128(1) << k) + d;
                if (v >= 0 && v < top)
                    b.insert(u64(v));
            }
        b.insert(0);
        b.insert(1);
        b.insert(~u64(0));
        boundary.assign(b.begin(), b.end());
    }

    // --- pure functions with an alignment argument ---
    section("alignment/small-domain", [&] {
        for (u64 x = 0; x <= SMALL; ++x)
        {
            for (int e = 0; e < 64; ++e)
            {
                u64 a = u64(1) << e;
                run_pure(F_ROUND_UP, x, a);
                run_pure(F_ALIGN_OFFSET, x, a);
                run_pure(F_ALIGN_OFFSET_PTR, x, a);
                run_pure(F_IS_ALIGNED, x, a);
            }
            if ((x & 1023) == 0)
                heartbeat();
        }
    });
    section("alignment/boundary", [&] {
        for (u64 x : boundary)
        {
            for (int e = 0; e < 64; ++e)
            {
                u64 a = u64(1) << e;
                run_pure(F_ROUND_UP, x, a);
                run_pure(F_ALIGN_OFFSET, x, a);
                run_pure(F_ALIGN_OFFSET_PTR, x, a);
                run_pure(F_IS_ALIGNED, x, a);
            }
            heartbeat();
        }
    });
    // --- alignment_for, logarithms, access policies ---
    section("alignment_for", [&] {
        for (u64 x = 0; x < LOGS; ++x)
        {
            run_pure(F_ALIGNMENT_FOR, x, 0);
            if ((x & 65535) == 0)
                heartbeat();
        }
        for (u64 x : boundary)
            if (x >= LOGS)
                run_pure(F_ALIGNMENT_FOR, x, 0);
    });
    section("ilog2", [&] {
        for (u64 x = 0; x < LOGS; ++x)
        {
            run_pure(F_ILOG2, x, 0);
            run_pure(F_ILOG2_CEIL, x, 0);
            run_pure(F_LOG2_INDEX, x, 0);
            run_pure(F_LOG2_ROUNDTRIP, x, 0);
            if ((x & 65535) == 0)
                heartbeat();
        }
        for (u64 x : boundary)
            if (x >= LOGS)
            {
                run_pure(F_ILOG2, x, 0);
                run_pure(F_ILOG2_CEIL, x, 0);
                run_pure(F_LOG2_INDEX, x, 0);
                run_pure(F_LOG2_ROUNDTRIP, x, 0);
            }
    });
    section("access-policies", [&] {
        for (u64 i = 0; i <= 64; ++i)
            run_pure(F_LOG2_SIZE, i, 0);
        for (u64 x = 0; x <= SMALL; ++x)
        {
            run_pure(F_ID_INDEX, x, 0);
            run_pure(F_ID_SIZE, x, 0);
        }
        for (u64 x : boundary)
            if (x > SMALL)
            {
                run_pure(F_ID_INDEX, x, 0);
                run_pure(F_ID_SIZE, x, 0);
            }
    });

    // --- bucket selection ---
    std::vector<u64> small_max, large_max;
    {
        std::set<u64> m;
        if (thorough)
            for (u64 v = 8; v <= 4097; ++v)
                m.insert(v);
        for (int k = 3; k <= 12; ++k)
            for (int d = -1; d <= 1; ++d)
            {
                u64 v = (u64(1) << k) + u64(i128(d));
                if (v >= 8)
                    m.insert(v);
            }
        for (u64 v : {11, 13, 21, 24, 27, 48, 100, 777, 1000, 3000, 4001})
            m.insert(v);
        if (g_small_max) // not part of the check: max_node_size below the minimum node size of the intrusive lists
            for (u64 v = 1; v < 8; ++v)
                m.insert(v);
        small_max.assign(m.begin(), m.end());
        std::set<u64> l;
        for (int k : {16, 20, 31, 32, 33, 40, 48, 62, 63})
            for (int d = -1; d <= 1; ++d)
                l.insert((u64(1) << k) + u64(i128(d)));
        large_max.assign(l.begin(), l.end());
    }
    const u64 small_limit = u64(1) << 16;
    // (every array is its own guarded section)
    sweep_list<fd::free_memory_list>(0, small_max, large_max, boundary, small_limit);
    sweep_list<fd::ordered_free_memory_list>(1, small_max, large_max, boundary, small_limit);
    sweep_list<fd::small_free_memory_list>(2, small_max, large_max, boundary, small_limit);

    // --- report ---
    double wall = verif::now_s() - t0;
    verif::jarr samples;
    for (int f : {F_ROUND_UP, F_ALIGN_OFFSET, F_ALIGNMENT_FOR, F_ILOG2_CEIL, F_LOG2_ROUNDTRIP, F_BUCKET})
        if (!S.sample[f].empty())
            samples.raw(S.sample[f]);
    verif::jarr viols;
    for (auto& v : S.viols)
        viols.raw(verif::jobj().str("tag", v.tag).str("detail", v.detail).raw("input", v.input).done());
    verif::jarr errs;
    for (auto& e : S.errors)
        errs.str(e);
    verif::jobj per, perx, pern, vc;
    for (int f = 0; f < F_COUNT; ++f)
    {
        per.raw(FNAME[f], std::to_string(S.per_fn[f]));
        perx.raw(FNAME[f], std::to_string(S.per_fn_excl[f]));
        pern.raw(FNAME[f], std::to_string(S.per_fn_nontriv[f]));
    }
    for (auto& kv : S.viol_count)
        vc.raw(kv.first, std::to_string(kv.second));
    verif::jobj extra;
    extra.raw("evaluations_per_function", per.done())
        .raw("excluded_per_function", perx.done())
        .raw("nontrivial_per_function", pern.done())
        .raw("violations_per_tag", vc.done())
        .raw("violations_total", std::to_string(S.viol_total))
        .raw("small_domain_max", std::to_string(SMALL))
        .raw("log_domain_below", std::to_string(LOGS))
        .raw("boundary_distance", std::to_string(D))
        .raw("boundary_values", std::to_string(boundary.size()))
        .raw("alignments", "64")
        .raw("max_node_sizes_small", std::to_string(small_max.size()))
        .raw("max_node_sizes_large_log2", std::to_string(large_max.size()))
        .raw("free_list_arrays_built", std::to_string(S.arrays_built))
        .raw("free_lists_constructed", std::to_string(S.array_lists_built))
        .raw("largest_array_bytes", std::to_string(S.largest_array_bytes))
        .raw("max_alignment", std::to_string(alignof(std::max_align_t)))
        .raw("debug_fence", std::to_string(FOONATHAN_MEMORY_DEBUG_FENCE))
        .raw("debug_assert", std::to_string(FOONATHAN_MEMORY_DEBUG_ASSERT));
    verif::jobj o;
    o.raw("evaluations", std::to_string(S.evals));
    o.raw("distinct_nontrivial", std::to_string(S.distinct));
    o.str("rule",
          "pure functions: every value of the complete small domain 0..2^16 (thorough 2^20) and of the boundary class "
          "{2^k+d, 2^64-2^k+d : k=0..63, |d|<=3 (thorough 64)} u {0,1,2^64-1}, each with every power-of-two alignment "
          "2^0..2^63; alignment_for/ilog2/ilog2_ceil/log2 policy: every value below 2^20 (thorough 2^26) plus the boundary "
          "class; size_from_index for every index 0..63; buckets: real free_list_array for 3 list types x {identity, log2} x "
          "each max_node_size of a fixed set in 8..4097 (thorough: every value 8..4097) and every size 1..max_node_size, "
          "log2 additionally max_node_size around 2^16..2^63 with sizes 1..2^16 + boundary class <= max. Excluded by rule "
          "(counted): least multiple does not fit in size_t, 0 for logs/alignment_for/log2 index, 2^index or bucket size "
          "not representable. A case is non-trivial when the expected answer is not the identity (value not already a "
          "multiple / not a power of two / capped / node larger than the size); distinct_nontrivial counts distinct "
          "(function, list+policy, alignment exponent or max_node_size bit length, bit length of the value) classes of "
          "non-trivial cases that reached the oracle");
    o.raw("samples", samples.done());
    o.boolean("exhaustive", S.complete && S.errors.empty());
    o.raw("excluded", std::to_string(S.excluded));
    o.dbl("wall_s", wall);
    o.raw("violations", viols.done());
    o.raw("harness_errors", errs.done());
    o.raw("extra", extra.done());
    std::string js = o.done();
    if (out.empty())
        std::printf("%s\n", js.c_str());
    else
    {
        FILE* f = std::fopen(out.c_str(), "w");
        if (!f)
        {
            std::fprintf(stderr, "cannot write %s\n", out.c_str());
            return 2;
        }
        std::fputs(js.c_str(), f);
        std::fputc('\n', f);
        std::fclose(f);
    }
    return 0;
}
