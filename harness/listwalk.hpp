// Structural walkers over the three free list implementations (read private fields; harness TUs are
// compiled with -fno-access-control). Used by the pool and pool-collection systems.
#ifndef VERIF_LISTWALK_HPP
#define VERIF_LISTWALK_HPP

#include "asys.hpp"

#include <foonathan/memory/detail/free_list.hpp>
#include <foonathan/memory/detail/small_free_list.hpp>

#include "detail/free_list_utils.hpp" // from <repo>/src (on the include path)

namespace verif
{
template <class List>
struct list_walk;

// unordered intrusive list
template <>
struct list_walk<fm::detail::free_memory_list>
{
    template <class W>
    static void check(W& w, int s, fm::detail::free_memory_list& l)
    {
        auto&       h   = w.h;
        std::size_t n   = 0;
        auto        ns  = l.node_size_;
        for (char* cur = l.first_; cur; cur = fm::detail::list_get_next(cur))
        {
            auto c = reinterpret_cast<u8*>(cur);
            if (!h.up.in_arena(c) || h.up.find_containing(h.up.offset_of(c), u32(ns)) < 0)
            {
                T().fail("M-freelist", "free-node-outside", fmt("free list node %p is not inside an owned block", (void*)cur));
                return;
            }
            u32 off = h.up.offset_of(c);
            if (h.up.blk[h.up.find_containing(off, u32(ns))].owner != u32(s))
            {
                T().fail("M-freelist", "free-node-foreign", fmt("free list node at offset %u lies in another allocator's block", off));
                return;
            }
            if (h.overlaps_live(off, u32(ns)))
            {
                T().fail("M-freelist", "free-node-live", fmt("free list contains offset %u which is part of a live allocation", off));
                return;
            }
            if (++n > 100000)
            {
                T().fail("M-freelist", "cycle", "free list does not terminate");
                return;
            }
        }
        if (n != l.capacity_)
            T().fail("M-freelist", "count-mismatch", fmt("free list holds %zu nodes but capacity counter says %zu", n, l.capacity_));
    }
    static const int link_bytes = 8;
};

template <>
struct list_walk<fm::detail::ordered_free_memory_list>
{
    template <class W>
    static void check(W& w, int s, fm::detail::ordered_free_memory_list& l)
    {
        auto&       h    = w.h;
        std::size_t n    = 0;
        auto        ns   = l.node_size_;
        char*       prev = l.begin_node();
        char*       cur  = fm::detail::xor_list_get_other(prev, nullptr);
        char*       end  = l.end_node();
        char*       last = nullptr;
        bool        cache_ok = false;
        while (cur != end)
        {
            auto c = reinterpret_cast<u8*>(cur);
            if (!h.up.in_arena(c) || h.up.find_containing(h.up.offset_of(c), u32(ns)) < 0)
            {
                T().fail("M-freelist", "free-node-outside", fmt("free list node %p is not inside an owned block", (void*)cur));
                return;
            }
            u32 off = h.up.offset_of(c);
            if (h.up.blk[h.up.find_containing(off, u32(ns))].owner != u32(s))
            {
                T().fail("M-freelist", "free-node-foreign", fmt("free list node at offset %u lies in another allocator's block", off));
                return;
            }
            if (h.overlaps_live(off, u32(ns)))
            {
                T().fail("M-freelist", "free-node-live", fmt("free list contains offset %u which is part of a live allocation", off));
                return;
            }
            if (last && !(last < cur))
            {
                T().fail("M-freelist", "unsorted", fmt("ordered free list is not sorted at offset %u", off));
                return;
            }
            if (cur == l.last_dealloc_ && prev == l.last_dealloc_prev_)
                cache_ok = true;
            last = cur;
            if (++n > 100000)
            {
                T().fail("M-freelist", "cycle", "free list does not terminate");
                return;
            }
            fm::detail::xor_list_iter_next(cur, prev);
        }
        if (l.last_dealloc_ == end && prev == l.last_dealloc_prev_)
            cache_ok = true;
        if (n != l.capacity_)
            T().fail("M-freelist", "count-mismatch", fmt("free list holds %zu nodes but capacity counter says %zu", n, l.capacity_));
        (void)cache_ok;
    }
    static const int link_bytes = 8;
};

template <>
struct list_walk<fm::detail::small_free_memory_list>
{
    template <class W>
    static void check(W& w, int s, fm::detail::small_free_memory_list& l)
    {
        auto&       h  = w.h;
        std::size_t n  = 0, chunks = 0;
        auto        ns = l.node_size_;
        for (auto c = l.base_.next; c != &l.base_; c = c->next)
        {
            auto cb = reinterpret_cast<u8*>(c);
            if (!h.up.in_arena(cb))
            {
                T().fail("M-freelist", "chunk-outside", "chunk header outside upstream memory");
                return;
            }
            if (++chunks > 10000)
            {
                T().fail("M-freelist", "cycle", "chunk list does not terminate");
                return;
            }
            u8*         mem = cb + fm::detail::chunk_memory_offset;
            std::size_t cnt = 0;
            unsigned    idx = c->first_free;
            while (idx != c->no_nodes)
            {
                if (idx > c->no_nodes)
                {
                    T().fail("M-freelist", "bad-index", "chunk free index out of range");
                    return;
                }
                u8* node = mem + idx * ns;
                u32 off  = h.up.offset_of(node);
                int bi   = h.up.find_containing(off, u32(ns));
                if (bi < 0 || h.up.blk[bi].owner != u32(s))
                {
                    T().fail("M-freelist", "free-node-outside", fmt("free node at offset %u not inside an owned block", off));
                    return;
                }
                if (h.overlaps_live(off, u32(ns)))
                {
                    T().fail("M-freelist", "free-node-live", fmt("chunk free list contains offset %u which is part of a live allocation", off));
                    return;
                }
                if (++cnt > 300)
                {
                    T().fail("M-freelist", "cycle", "chunk free list does not terminate");
                    return;
                }
                idx = *node;
            }
            if (cnt != c->capacity)
            {
                T().fail("M-freelist", "count-mismatch", fmt("chunk holds %zu free nodes but its counter says %u", cnt, c->capacity));
                return;
            }
            n += cnt;
        }
        if (n != l.capacity_)
            T().fail("M-freelist", "count-mismatch", fmt("chunks hold %zu free nodes but capacity counter says %zu", n, l.capacity_));
    }
    static const int link_bytes = 1;
};


    //=== free nodes in list order (for the deliberately invalid double release of C16) ===//
    inline void collect_free(fm::detail::free_memory_list& l, std::vector<u8*>& out)
    {
        std::size_t n = 0;
        for (char* cur = l.first_; cur && n < 64; cur = fm::detail::list_get_next(cur), ++n)
            out.push_back(reinterpret_cast<u8*>(cur));
    }
    inline void collect_free(fm::detail::ordered_free_memory_list& l, std::vector<u8*>& out)
    {
        char* prev = l.begin_node();
        char* cur  = fm::detail::xor_list_get_other(prev, nullptr);
        char* end  = l.end_node();
        std::size_t n = 0;
        while (cur != end && n++ < 64)
        {
            out.push_back(reinterpret_cast<u8*>(cur));
            fm::detail::xor_list_iter_next(cur, prev);
        }
    }
    inline void collect_free(fm::detail::small_free_memory_list& l, std::vector<u8*>& out)
    {
        for (auto c = l.base_.next; c != &l.base_ && out.size() < 64; c = c->next)
        {
            u8*      mem = reinterpret_cast<u8*>(c) + fm::detail::chunk_memory_offset;
            unsigned idx = c->first_free;
            unsigned cnt = 0;
            while (idx != c->no_nodes && cnt++ < 8)
            {
                out.push_back(mem + idx * l.node_size_);
                idx = mem[idx * l.node_size_];
            }
        }
    }

    // the address exactly one past the node area of the first chunk (small list only)
    inline u8* one_past_first_chunk(fm::detail::small_free_memory_list& l)
    {
        auto c = l.base_.next;
        if (c == &l.base_)
            return nullptr;
        return reinterpret_cast<u8*>(c) + fm::detail::chunk_memory_offset + std::size_t(c->no_nodes) * l.node_size_;
    }
    template <class L>
    inline u8* one_past_first_chunk(L&)
    {
        return nullptr;
    }
    template <class List>
    struct list_kind
    {
        static const bool double_free_checked = cfg_dd;
        static const bool is_small            = false;
    };
    template <>
    struct list_kind<fm::detail::free_memory_list>
    {
        static const bool double_free_checked = false; // the unordered list has no check
        static const bool is_small            = false;
    };
    template <>
    struct list_kind<fm::detail::small_free_memory_list>
    {
        static const bool double_free_checked = cfg_dd;
        static const bool is_small            = true;
    };
} // namespace verif

#endif
