// C05 on the block source `temporary`: the blocks a temporary_allocator makes the thread's temporary stack grow by are
// given back to the heap at the right time: at the destruction of the allocator object if it had requested shrink_to_fit(),
// otherwise they stay cached and are reused by the next growth; every block exactly once, most recent first.
//
// Exhaustive DFS (depth 8 quick / 10 thorough) over {open scope, alloc small, alloc big (grows), request shrink_to_fit() on the
// innermost scope, close scope} on ONE thread; every sequence starts from a temporary stack with one block of 256 bytes
// (temporary_stack_initializer(256) around each sequence; its destructor is the final clear).
// The upstream is observed by -Wl,--wrap=malloc,--wrap=free (only the library's objects call them: heap_alloc/heap_dealloc).
//
//   h_tempsrc --tier quick|thorough --out f            h_tempsrc --replay '{"ops":[0,2,2,2,3,4]}'
// Link flags needed: -Wl,--wrap=malloc,--wrap=free (plus the usual -Wl,--wrap=abort)
#include "../engine/core.hpp"

#include <foonathan/memory/debugging.hpp>
#include <foonathan/memory/error.hpp>
#include <foonathan/memory/temporary_allocator.hpp>

#include <algorithm>
#include <map>
#include <memory>
#include <set>
#include <sys/wait.h>

namespace fm = foonathan::memory;
using namespace verif;

//=== upstream log ===//
struct ublk
{
    void*       p;
    std::size_t n;
    long        seq;
};
enum
{
    MAXB = 256
};
static ublk g_live[MAXB];
static int  g_nlive = 0;
static long g_seq = 0, g_mallocs = 0, g_frees = 0, g_bad_frees = 0;
static long g_freed_seq[MAXB]; // allocation numbers of the blocks freed since the last reset_freed()
static int  g_nfreed = 0;

extern "C" void* __real_malloc(std::size_t);
extern "C" void  __real_free(void*);
extern "C" void* __wrap_malloc(std::size_t n)
{
    void* p = __real_malloc(n);
    ++g_mallocs;
    if (p && g_nlive < MAXB)
        g_live[g_nlive++] = {p, n, ++g_seq};
    return p;
}
extern "C" void __wrap_free(void* p)
{
    if (!p)
        return;
    for (int i = 0; i < g_nlive; ++i)
        if (g_live[i].p == p)
        {
            if (g_nfreed < MAXB)
                g_freed_seq[g_nfreed++] = g_live[i].seq;
            g_live[i] = g_live[--g_nlive];
            ++g_frees;
            __real_free(p);
            return;
        }
    ++g_bad_frees; // not outstanding: double return / foreign pointer; not passed on
}

//=== alphabet ===//
enum op_t
{
    OP_OPEN = 0,
    OP_SMALL,  // allocate(16, 8)
    OP_BIG,    // allocate(200, 1): the 2nd one in a 256-byte block grows the stack, the 4th grows it again
    OP_SHRINK, // shrink_to_fit() on the innermost scope (only sets a flag; takes effect in the destructor)
    OP_CLOSE,
    N_OPS
};
static const char* const OP_NAME[N_OPS] = {"open", "alloc(16,8)", "alloc(200,1)", "shrink_to_fit()", "close"};
static const std::size_t INITIAL = 256;
static const int         MAX_NEST = 3;

struct violation
{
    std::string tag, detail;
};
static std::vector<violation> g_viol;
static bool                   g_verbose = false;
static void                   viol(const std::string& tag, const std::string& detail)
{
    for (auto& v : g_viol)
        if (v.tag == tag)
            return;
    g_viol.push_back({tag, detail});
    if (g_verbose)
        std::printf("    !! [%s] %s\n", tag.c_str(), detail.c_str());
}

struct counters
{
    long scopes = 0, closes_with_shrink = 0, closes_with_shrink_that_freed = 0, closes_caching = 0, grows_from_heap = 0, grows_from_cache = 0,
         blocks_freed_at_close = 0, max_blocks = 0, grown_twice_scopes = 0, final_clears_that_freed = 0;
};
static counters              C;
static std::set<std::string> g_classes;

struct scope
{
    std::unique_ptr<fm::temporary_allocator> t;
    std::size_t                              index = 0;
    const char*                              top   = nullptr;
    const char*                              end   = nullptr;
    fm::temporary_allocator*                 prev  = nullptr;
    bool                                     shrink = false;
};

static void inv_h(const fm::allocator_info& info, const void*)
{
    viol("invalid-pointer-report", std::string("invalid-pointer handler called by ") + info.name);
    guard_escape(OUT_REPORTED);
}
static void badsize_h(const fm::allocator_info&, std::size_t, std::size_t) {}
static void leak_h(const fm::allocator_info&, std::ptrdiff_t) {}

// blocks of the stack's arena that are outstanding heap memory: everything the library holds except the stack object(s)
static long stack_object_blocks = 0; // number of outstanding heap blocks that are not arena blocks (temporary_stack objects)

static void run_ops(const std::vector<int>& ops)
{
    long live_before = g_nlive;
    {
        fm::temporary_stack_initializer init(INITIAL);
        fm::temporary_stack&            st = fm::get_temporary_stack(INITIAL);
        auto&                           ar = st.stack_.arena_;
        // what the library holds besides the arena's blocks (the temporary_stack object of mode 2)
        stack_object_blocks = g_nlive - long(ar.size() + ar.cache_size());
        if (ar.size() != 1 || ar.cache_size() != 0)
            viol("bad-start", fmt("a freshly initialised temporary stack has %zu blocks in use and %zu cached", ar.size(), ar.cache_size()));
        std::vector<scope> scopes;
        auto held = [&] { return long(g_nlive) - stack_object_blocks; };
        auto consistent = [&](const char* when) {
            if (held() != long(ar.size() + ar.cache_size()))
                viol("upstream-mismatch", fmt("%s: %ld heap blocks outstanding for the stack, but its arena has %zu in use + %zu cached", when, held(),
                                              ar.size(), ar.cache_size()));
            if (g_bad_frees)
                viol("bad-free", "a block was returned to the heap that is not outstanding (returned twice / foreign pointer)");
            if (long(ar.size() + ar.cache_size()) > C.max_blocks)
                C.max_blocks = long(ar.size() + ar.cache_size());
        };
        auto do_close = [&] {
            scope&      sc     = scopes.back();
            std::size_t used0  = ar.size(), cache0 = ar.cache_size();
            long        m0 = g_mallocs, f0 = g_frees;
            std::size_t over = (used0 - 1) - sc.index; // blocks above the scope's marker
            g_nfreed         = 0;
            if (over >= 2)
                ++C.grown_twice_scopes;
            bool shrink = sc.shrink;
            sc.t.reset(); // ~temporary_allocator
            auto m = st.top();
            if (m.index != sc.index || m.top != sc.top || m.end != sc.end || st.top_ != sc.prev)
                viol("scope-not-restored", fmt("after ~temporary_allocator the top of the stack is not the scope's start marker (block #%zu expected, #%zu found)",
                                               sc.index, m.index));
            if (g_mallocs != m0)
                viol("malloc-at-close", "destroying a temporary_allocator allocated heap memory");
            long freed = g_frees - f0;
            if (shrink)
            {
                ++C.closes_with_shrink;
                // shrink_to_fit() was requested: nothing the scope grew the stack by (nor anything cached before) is still held
                if (ar.cache_size() != 0 || held() != long(ar.size()))
                    viol("not-returned-at-shrink",
                         fmt("the temporary_allocator had requested shrink_to_fit(), but after its destruction the stack still holds %ld heap blocks for %zu "
                             "block(s) in use (%zu cached; the scope had grown the stack by %zu block(s), %zu were cached before)",
                             held(), ar.size(), ar.cache_size(), over, cache0));
                if (freed != long(over + cache0))
                    viol("not-returned-at-shrink", fmt("%ld blocks went back to the heap at the destruction, expected %zu", freed, over + cache0));
                if (freed)
                    ++C.closes_with_shrink_that_freed;
                for (int i = 1; i < g_nfreed; ++i)
                    if (g_freed_seq[i] > g_freed_seq[i - 1])
                        viol("return-order", "cached blocks were not returned most recent first");
            }
            else
            {
                ++C.closes_caching;
                // no request: the blocks stay with the stack (cached) and nothing is returned
                if (freed != 0)
                    viol("returned-without-request", fmt("%ld block(s) were returned to the heap by a temporary_allocator that had not requested shrink_to_fit()", freed));
                if (ar.size() + ar.cache_size() != used0 + cache0 || ar.cache_size() != cache0 + over)
                    viol("cache-lost", fmt("after the destruction %zu blocks are cached, expected %zu", ar.cache_size(), cache0 + over));
            }
            C.blocks_freed_at_close += freed;
            g_classes.insert(fmt("close|over%zu|cache%zu|shrink%d|nest%zu", over, cache0, int(shrink), scopes.size()));
            scopes.pop_back();
            consistent("after a scope was closed");
        };
        auto do_alloc = [&](std::size_t n, std::size_t al) {
            std::size_t used0 = ar.size(), cache0 = ar.cache_size();
            long        m0    = g_mallocs;
            void*       p     = nullptr;
            try
            {
                p = scopes.back().t->allocate(n, al);
            }
            catch (const fm::bad_allocation_size&)
            {
            }
            if (ar.size() > used0)
            {
                // growth: from the cache if there is a cached block (no heap call), else exactly one heap block
                if (cache0 > 0)
                {
                    ++C.grows_from_cache;
                    if (g_mallocs != m0)
                        viol("cache-not-reused", fmt("the stack grew by calling malloc although %zu block(s) were cached", cache0));
                    if (ar.cache_size() != cache0 - 1)
                        viol("cache-not-reused", "growth with a non-empty cache did not take a block from the cache");
                }
                else
                {
                    ++C.grows_from_heap;
                    if (g_mallocs != m0 + 1)
                        viol("growth-mallocs", fmt("one growth made %ld heap allocations", g_mallocs - m0));
                }
                g_classes.insert(fmt("grow|used%zu|cache%zu", used0, cache0));
            }
            else if (g_mallocs != m0)
                viol("growth-mallocs", "an allocation that did not grow the stack allocated heap memory");
            if (p)
                std::memset(p, 0x5A, n);
            consistent("after an allocation");
        };
        for (int op : ops)
        {
            if (g_verbose)
                std::printf("  %-16s", OP_NAME[op]);
            switch (op)
            {
            case OP_OPEN:
            {
                scope sc;
                sc.prev = st.top_;
                auto m  = st.top();
                sc.t.reset(new fm::temporary_allocator());
                sc.index = m.index;
                sc.top   = m.top;
                sc.end   = m.end;
                if (&sc.t->get_stack() != &st)
                    viol("other-stack", "the temporary_allocator uses another stack than the thread's");
                scopes.push_back(std::move(sc));
                ++C.scopes;
                break;
            }
            case OP_SMALL:
                do_alloc(16, 8);
                break;
            case OP_BIG:
                do_alloc(200, 1);
                break;
            case OP_SHRINK:
                scopes.back().t->shrink_to_fit();
                scopes.back().shrink = true;
                break;
            case OP_CLOSE:
                do_close();
                break;
            }
            if (g_verbose)
                std::printf(" -> %zu block(s) in use, %zu cached, %ld heap blocks held, %ld malloc / %ld free so far\n", ar.size(), ar.cache_size(), held(),
                            g_mallocs, g_frees);
            if (!g_viol.empty())
            {
                while (!scopes.empty()) // leave in LIFO order; state is reported as violated already
                    scopes.pop_back();
                return;
            }
        }
        while (!scopes.empty())
        {
            do_close();
            if (!g_viol.empty())
            {
                while (!scopes.empty())
                    scopes.pop_back();
                return;
            }
        }
        g_nfreed = 0;
    } // ~temporary_stack_initializer: the final clear
    // everything except the stack object and its first block is returned, each block once
    if (g_nfreed)
        ++C.final_clears_that_freed;
    for (int i = 1; i < g_nfreed; ++i)
        if (g_freed_seq[i] > g_freed_seq[i - 1])
            viol("return-order", "the final clear did not return the cached blocks most recent first");
    if (g_bad_frees)
        viol("bad-free", "a block was returned to the heap that is not outstanding (returned twice / foreign pointer)");
#if FOONATHAN_MEMORY_TEMPORARY_STACK_MODE >= 2
    long expect = live_before == 0 ? 2 : live_before; // first sequence of the process creates the stack object + first block
    if (g_nlive != expect)
        viol("not-returned-at-clear", fmt("after the temporary_stack_initializer was destroyed the library holds %d heap blocks, expected %ld", g_nlive, expect));
#else
    if (g_nlive != 0)
        viol("not-returned-at-clear", fmt("after the temporary_stack_initializer destroyed the stack the library still holds %d heap blocks", g_nlive));
    (void)live_before;
#endif
}

// guarded run of one sequence; returns tags
static std::string run_case(const std::vector<int>& ops)
{
    g_viol.clear();
    int out = OUT_OK;
    VERIF_GUARDED(out, run_ops(ops));
    if (out == OUT_ABORTED)
        viol("abort", "the library called abort() (assertion / default handler)");
    else if (out == OUT_CRASHED)
        viol("crash", "the sequence crashed");
    else if (out == OUT_HUNG)
        viol("hang", "the sequence did not return");
    std::string t;
    std::set<std::string> s;
    for (auto& v : g_viol)
        s.insert(v.tag);
    for (auto& x : s)
        t += x + ";";
    return t;
}

// the same case once more in a fresh process (the in-process state after a violation is not trustworthy)
static std::string run_case_forked(const std::vector<int>& ops, bool verbose)
{
    int fd[2];
    if (pipe(fd) != 0)
        return "?";
    std::fflush(nullptr);
    pid_t pid = fork();
    if (pid == 0)
    {
        close(fd[0]);
        g_verbose     = verbose;
        std::string t = run_case(ops);
        if (verbose)
        {
            for (auto& v : g_viol)
                std::printf("VIOLATED [%s] %s\n", v.tag.c_str(), v.detail.c_str());
            if (g_viol.empty())
                std::printf("no violation\n");
            std::fflush(stdout);
        }
        (void)!write(fd[1], t.data(), t.size());
        _exit(0);
    }
    close(fd[1]);
    std::string t;
    char        b[512];
    ssize_t     n;
    while ((n = read(fd[0], b, sizeof b)) > 0)
        t.append(b, std::size_t(n));
    close(fd[0]);
    int st = 0;
    waitpid(pid, &st, 0);
    if (WIFSIGNALED(st))
        t += "crash;";
    return t;
}

static std::string ops_json(const std::vector<int>& ops)
{
    jarr a;
    for (int o : ops)
        a.raw(std::to_string(o));
    std::string names;
    for (std::size_t i = 0; i < ops.size(); ++i)
        names += std::string(i ? ", " : "") + OP_NAME[ops[i]];
    return jobj().raw("ops", a.done()).str("sequence", names).done();
}

static void gen(int D, std::vector<int>& cur, std::vector<bool>& shrunk, std::vector<std::vector<int>>& out)
{
    if (!cur.empty())
        out.push_back(cur);
    if (int(cur.size()) == D)
        return;
    for (int op = 0; op < N_OPS; ++op)
    {
        if (op == OP_OPEN && int(shrunk.size()) == MAX_NEST)
            continue;
        if (op != OP_OPEN && shrunk.empty())
            continue;
        if (op == OP_SHRINK && shrunk.back())
            continue; // idempotent
        cur.push_back(op);
        if (op == OP_OPEN)
        {
            shrunk.push_back(false);
            gen(D, cur, shrunk, out);
            shrunk.pop_back();
        }
        else if (op == OP_CLOSE)
        {
            bool b = shrunk.back();
            shrunk.pop_back();
            gen(D, cur, shrunk, out);
            shrunk.push_back(b);
        }
        else if (op == OP_SHRINK)
        {
            shrunk.back() = true;
            gen(D, cur, shrunk, out);
            shrunk.back() = false;
        }
        else
            gen(D, cur, shrunk, out);
        cur.pop_back();
    }
}

int main(int argc, char** argv)
{
    std::map<std::string, std::string> a;
    for (int i = 1; i < argc; ++i)
    {
        std::string k = argv[i];
        if (k.rfind("--", 0) == 0)
        {
            std::string v = "1";
            if (i + 1 < argc && std::string(argv[i + 1]).rfind("--", 0) != 0)
                v = argv[++i];
            a[k.substr(2)] = v;
        }
    }
    install_guards(2000);
    fm::set_invalid_pointer_handler(inv_h);
    fm::set_leak_handler(leak_h);
    fm::bad_allocation_size::set_handler(badsize_h);
    if (a.count("replay"))
    {
        std::string      js = a["replay"];
        std::vector<int> ops;
        auto             p = js.find("\"ops\"");
        p                  = js.find('[', p);
        for (; p < js.size() && js[p] != ']'; ++p)
            if (js[p] >= '0' && js[p] <= '9')
                ops.push_back(js[p] - '0');
        std::printf("sequence: %s\n", ops_json(ops).c_str());
        std::fflush(nullptr);
        std::string t = run_case_forked(ops, true);
        std::_Exit(t.empty() ? 0 : 1);
    }
    double t0       = now_s();
    bool   thorough = a["tier"] == "thorough";
    int    D        = a.count("depth") ? std::atoi(a["depth"].c_str()) : (thorough ? 10 : 8);
    std::vector<std::vector<int>> all;
    std::vector<int>              cur;
    std::vector<bool>             shrunk;
    gen(D, cur, shrunk, all);
    std::stable_sort(all.begin(), all.end(), [](const std::vector<int>& x, const std::vector<int>& y) { return x.size() < y.size(); }); // shortest counterexample first
    jarr                       viols, samples, herrs;
    std::map<std::string, int> seen;
    long                       evals = 0;
    bool                       stopped = false;
    for (auto& ops : all)
    {
        ++evals;
        std::string t = run_case(ops);
        if (t.empty())
            continue;
        auto        v  = g_viol;
        std::string t2 = run_case_forked(ops, false); // re-check in a fresh process
        if (t2 != t)
            herrs.str(ops_json(ops) + ": violation not reproducible: '" + t + "' vs '" + t2 + "'");
        else
            for (auto& x : v)
                if (seen[x.tag]++ < 1)
                    viols.raw(jobj().str("tag", x.tag).str("detail", x.detail + " | " + ops_json(ops)).raw("input", ops_json(ops)).done());
        stopped = true; // the process state is no longer canonical
        break;
    }
    for (std::size_t i : {all.size() / 3, all.size() / 2, all.size() - 1})
        samples.raw(ops_json(all[i]));
    jobj extra;
    extra.num("sequences", (long long)all.size())
        .num("depth", D)
        .num("scopes", C.scopes)
        .num("closes_with_shrink_request", C.closes_with_shrink)
        .num("closes_with_shrink_request_that_returned_blocks", C.closes_with_shrink_that_freed)
        .num("closes_without_request", C.closes_caching)
        .num("scopes_that_grew_the_stack_at_least_twice", C.grown_twice_scopes)
        .num("growths_from_the_heap", C.grows_from_heap)
        .num("growths_from_the_cache", C.grows_from_cache)
        .num("blocks_returned_at_scope_close", C.blocks_freed_at_close)
        .num("final_clears_that_returned_blocks", C.final_clears_that_freed)
        .num("max_blocks_held", C.max_blocks)
        .num("heap_allocations", g_mallocs)
        .num("heap_deallocations", g_frees);
    bool vac = !stopped && (C.closes_with_shrink_that_freed == 0 || C.grows_from_cache == 0 || C.grown_twice_scopes == 0 || C.final_clears_that_freed == 0);
    if (vac)
        herrs.str("vacuous: no shrink request returned blocks / no growth from the cache / no scope grew twice / no final clear returned blocks");
    jobj out;
    out.num("evaluations", evals)
        .num("distinct_nontrivial", (long long)g_classes.size())
        .str("rule", "one evaluation = one valid sequence (<= D operations of open / alloc(16,8) / alloc(200,1) / shrink_to_fit() / close, nesting <= 3, open "
                     "scopes closed at the end) on a 256-byte temporary stack inside a temporary_stack_initializer; non-trivial class = (blocks above the "
                     "marker, blocks cached before, shrink requested, nesting) at a close or (blocks in use, cached) at a growth")
        .raw("samples", samples.done())
        .boolean("exhaustive", !stopped || !seen.empty())
        .num("excluded", 0)
        .dbl("wall_s", now_s() - t0)
        .raw("violations", viols.done())
        .raw("harness_errors", herrs.done())
        .raw("extra", extra.done());
    FILE* f = std::fopen(a.count("out") ? a["out"].c_str() : "/dev/stdout", "w");
    std::fputs((out.done() + "\n").c_str(), f);
    std::fclose(f);
    std::fflush(nullptr);
    std::_Exit(0);
}
