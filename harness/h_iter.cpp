// Explorable system: iteration_allocator<N> (N = 1..5) over a fixed block of any size.
#include "asys.hpp"

#include <foonathan/memory/allocator_traits.hpp>
#include <foonathan/memory/iteration_allocator.hpp>

using namespace verif;

struct iter_params
{
    std::size_t bs = 100;
    bool        tries = false;
    int         fam = 0;
    std::vector<std::pair<long, long>> reqs; // size x alignment
};
static iter_params PP;

struct named_req
{
    alloc_req   r;
    std::string name, kind;
};
static std::vector<named_req> ALLOCS;

template <std::size_t N>
struct iter_policy
{
    using object  = fm::iteration_allocator<N, raw_up>;
    using traits  = fm::allocator_traits<object>;
    using ctraits = fm::composable_allocator_traits<object>;
    using S       = asys<iter_policy>;
    struct extra_t
    {
        u32 dummy;
    };
    static void init_extra(extra_t&) {}
    static void construct(void* where)
    {
        ::new (where) object(PP.bs);
        // regions are disjoint, inside the block, and add up to at most the block (C07)
        auto& o   = *static_cast<object*>(where);
        std::size_t sum = 0;
        for (std::size_t i = 0; i < N; ++i)
        {
            sum += o.capacity_left(i);
            if (o.block_start(i) > o.block_end(i) || (i + 1 < N && o.block_end(i) > o.block_start(i + 1)))
                T().fail("M-iter", "regions-overlap", fmt("region %zu and its successor overlap", i));
        }
        if (sum > PP.bs)
            T().fail("M-iter", "regions-exceed-block", fmt("the %zu regions have %zu bytes in total, the block has %zu", N, sum, PP.bs));
        if (o.block_end(N - 1) > static_cast<char*>(o.block_.memory) + o.block_.size)
            T().fail("M-iter", "regions-exceed-block", "last region ends past the block");
    }
    static int nbad()
    {
        return 0;
    }
    static std::string bad_kind(int)
    {
        return "";
    }
    template <class W>
    static std::string bad_name(W&, int, int)
    {
        return "";
    }
    template <class W>
    static bool bad_enabled(W&, int, int)
    {
        return false;
    }
    template <class W>
    static void bad_call(W&, int, int)
    {
    }
    template <class W>
    static u64 digest(W&, int s)
    {
        (void)s;
        return 0;
    }
    static bool fills_new()
    {
        return true;
    }
    static bool has_leak_check()
    {
        return false;
    }
    static std::size_t block_header()
    {
        return 0;
    }
    static int nalloc()
    {
        return int(ALLOCS.size());
    }
    static std::string alloc_name(int i)
    {
        return ALLOCS[i].name;
    }
    static std::string alloc_kind(int i)
    {
        return ALLOCS[i].kind;
    }
    static verif::alloc_req make_req(extra_t&, int, int i)
    {
        auto r = ALLOCS[i].r;
        r.tag  = 0; // age in iterations
        return r;
    }
    static bool alloc_enabled(extra_t&, int, int)
    {
        return true;
    }
    static bool release_enabled(extra_t&, shadow_t<MAXL>&, int)
    {
        return false;
    }
    static void* do_alloc(object& o, const verif::alloc_req& r)
    {
        switch (r.fam)
        {
        case 0:
            return r.is_try ? o.try_allocate(r.size, r.align) : o.allocate(r.size, r.align);
        case 1:
            return traits::allocate_node(o, r.size, r.align);
        default:
            return ctraits::try_allocate_node(o, r.size, r.align);
        }
    }
    static bool do_release(object&, void*, const live_t&, bool)
    {
        return true;
    }

    static int nextra()
    {
        return 1;
    }
    static std::string extra_kind(int)
    {
        return "next_iteration";
    }
    static std::string extra_name(extra_t&, int)
    {
        return "next_iteration()";
    }
    static bool extra_enabled(extra_t&, shadow_t<MAXL>&, int, int)
    {
        return true;
    }
    template <class W>
    static void extra_apply(W& w, int s, int)
    {
        auto& o = S::obj(s);
        auto& t = T();
        // memory allocated N iterations ago is given up now (before the allocator reuses the region)
        for (u32 k = 0; k < w.h.sh.n;)
        {
            auto& l = w.h.sh.v[k];
            if (l.owner == u32(s) && ++l.tag >= N)
                w.h.sh.erase(k);
            else
                ++k;
        }
        std::size_t tops_before[N];
        for (std::size_t i = 0; i < N; ++i)
            tops_before[i] = o.capacity_left(i);
        std::size_t cur_before = o.cur_iteration();
        int oc = guarded([&] { o.next_iteration(); });
        if (oc != OUT_OK)
        {
            S::bad_outcome(oc, "next_iteration");
            t.outcome = outcome_name(oc);
            return;
        }
        std::size_t cur = o.cur_iteration();
        if (cur != (cur_before + 1) % N)
            t.fail("M-iter", "wrong-iteration", "next_iteration() did not advance to the next region");
        std::size_t full = std::size_t(o.block_end(cur) - o.block_start(cur));
        if (o.capacity_left(cur) != full || o.capacity_left() != full)
            t.fail("M-iter", "capacity-not-restored",
                   fmt("after switching to iteration %zu its capacity is %zu, the region has %zu bytes", cur, o.capacity_left(cur), full));
        for (std::size_t i = 0; i < N; ++i)
            if (i != cur && o.capacity_left(i) != tops_before[i])
                t.fail("M-iter", "other-region-changed", fmt("next_iteration() changed the capacity of region %zu", i));
        if (t.up_allocs || t.up_deallocs)
            t.fail("M-upstream", "next-touched-upstream", "next_iteration() called the upstream allocator");
        t.outcome = "ok";
    }
    static void after_alloc(extra_t&, const live_t&) {}
    static void after_release(extra_t&, const live_t&) {}
    static void after_move(extra_t&, int, int) {}
    static void after_swap(extra_t&) {}
    static void after_destroy(extra_t&, int) {}

    struct obs
    {
        std::size_t capleft;
        std::size_t cur;
        const char *start, *end, *top;
    };
    template <class W>
    static obs observe(W&, int s)
    {
        auto& o = S::obj(s);
        obs   b;
        b.cur     = o.cur_iteration();
        b.capleft = o.capacity_left();
        b.start   = o.block_start(b.cur);
        b.end     = o.block_end(b.cur);
        b.top     = o.stacks_[b.cur].top();
        return b;
    }
    template <class W>
    static void check_alloc(W& w, int s, const verif::alloc_req& r, const live_t& l, const obs& before)
    {
        auto& t     = T();
        auto  after = observe(w, s);
        auto  p     = reinterpret_cast<const char*>(w.arena + l.off);
        if (p < before.start || p + l.bytes > before.end)
            t.fail("M-iter", "outside-current-region",
                   fmt("allocation [%u,%u) of iteration %zu lies outside that iteration's region", l.off, l.off + l.bytes, before.cur));
        std::size_t pad  = std::size_t(p - before.top) - cfg_fence;
        std::size_t used = before.capleft - after.capleft;
        if (after.capleft > before.capleft || used != l.bytes + 2 * cfg_fence + pad)
            t.fail("M-counters", "capacity-delta-alloc",
                   fmt("capacity_left() went from %zu to %zu for %u bytes with %zu padding", before.capleft, after.capleft, l.bytes, pad));
        if (l.bytes > before.capleft)
            t.fail("M-maxima", "above-max-node-size", fmt("request of %u bytes succeeded, max_node_size() was %zu", l.bytes, before.capleft));
        if (t.up_allocs)
            t.fail("M-try", "try-grew", "iteration allocator called the upstream during an allocation");
        (void)r;
    }
    template <class W>
    static void check_failed_alloc(W& w, int s, const verif::alloc_req& r, const obs& before, int ex)
    {
        auto& t     = T();
        auto  after = observe(w, s);
        if (after.capleft != before.capleft)
            t.fail("M-counters", "capacity-changed-by-failed-alloc", "failed allocation changed capacity_left()");
        std::size_t need = r.size + 2 * cfg_fence;
        std::size_t al   = r.align ? r.align : 1;
        std::uintptr_t a = reinterpret_cast<std::uintptr_t>(before.top) + cfg_fence;
        std::size_t pad  = (al - a % al) % al;
        if (need + pad <= before.capleft)
            t.fail(r.is_try ? "M-try" : "M-fail", "refused-although-fits",
                   fmt("request of %zu bytes (incl. fences and padding) refused although capacity_left() was %zu", need + pad, before.capleft));
        if (!r.is_try && ex != EX_OOFM && ex != EX_OOM)
            t.fail("M-fail", "wrong-exception", "exhausted iteration region must throw out_of_fixed_memory");
    }
    template <class W>
    static void check_release(W&, int, const live_t&, const obs&)
    {
    }
    template <class W>
    static void check_structure(W& w, int s)
    {
        auto& o = S::obj(s);
        if (o.cur_iteration() >= N)
        {
            T().fail("M-iter", "wrong-iteration", "current iteration index out of range on a valid object");
            return;
        }
        for (std::size_t i = 0; i < N; ++i)
        {
            auto top = o.stacks_[i].top();
            if (top < o.block_start(i) || top > o.block_end(i))
            {
                T().fail("M-iter", "top-outside-region", fmt("the cursor of region %zu lies outside the region", i));
                return;
            }
        }
        (void)w;
    }
};

static void build_allocs()
{
    ALLOCS.clear();
    for (auto& sa : PP.reqs)
    {
        alloc_req r{};
        r.kind  = 0;
        r.count = 1;
        r.size  = u32(sa.first);
        r.align = u32(sa.second);
        r.fam   = u8(PP.fam);
        if (PP.fam == 0)
        {
            ALLOCS.push_back({r, fmt("allocate(%ld,%ld)", sa.first, sa.second), "allocate"});
            if (PP.tries)
            {
                r.is_try = true;
                ALLOCS.push_back({r, fmt("try_allocate(%ld,%ld)", sa.first, sa.second), "try_allocate"});
            }
        }
        else if (PP.fam == 1)
            ALLOCS.push_back({r, fmt("traits::allocate_node(%ld,%ld)", sa.first, sa.second), "node"});
        else
        {
            r.is_try = true;
            ALLOCS.push_back({r, fmt("ctraits::try_allocate_node(%ld,%ld)", sa.first, sa.second), "try_node"});
        }
    }
}

int main(int argc, char** argv)
{
    argmap a(argc, argv);
    read_common(a);
    PP.bs    = std::size_t(a.n("bs", 100));
    PP.tries = a.n("tries", 0) != 0;
    std::string fam = a.s("fam", "member");
    PP.fam   = fam == "member" ? 0 : fam == "traits" ? 1 : 2;
    {
        std::string v = a.s("reqs", "8x8,5x1");
        std::size_t p = 0;
        while (p < v.size())
        {
            auto e = v.find(',', p);
            if (e == std::string::npos)
                e = v.size();
            auto x = v.find('x', p);
            if (x != std::string::npos && x < e)
                PP.reqs.push_back({std::atol(v.substr(p, x - p).c_str()), std::atol(v.substr(x + 1, e - x - 1).c_str())});
            p = e + 1;
        }
    }
    build_allocs();
    long        n    = a.n("N", 2);
    std::string name = a.s("name", fmt("iter<%ld>/%zu", n, PP.bs));
    switch (n)
    {
    case 1:
        return run_system<asys<iter_policy<1>>>(a, name);
    case 2:
        return run_system<asys<iter_policy<2>>>(a, name);
    case 3:
        return run_system<asys<iter_policy<3>>>(a, name);
    case 4:
        return run_system<asys<iter_policy<4>>>(a, name);
    default:
        return run_system<asys<iter_policy<5>>>(a, name);
    }
}
