#!/usr/bin/env python3
"""Runs property checks against seeded changes on PRIVATE mutated copies of /repo (never /repo itself) and records
which check catches which change.
   seed_matrix.py [--tier quick] [--jobs 2] [ids...]      ids: seeded/<id> directory names, fixes 'D05' (reverse-applied), default: all
Results: /verif/seeded/matrix.json (+ detected_by in each seeded/<id>/meta.json)."""
import concurrent.futures as cf
import glob
import json
import os
import shutil
import subprocess
import sys
import time

VERIF = os.path.dirname(os.path.dirname(os.path.abspath(__file__)))
WORK = "/tmp/work/matrix"

# which checks to run for a reverse-applied fix
FIX_PROPS = {
    "D01": ["C01", "C03"], "D02": ["C04", "C18"], "D03": ["C07", "C01"], "D04": ["C05"], "D05": ["C08"], "D06": ["C09"],
    "D09": ["C12"], "D10": ["C12"], "D11": ["C14"], "D12": ["C14"], "D13": ["C16"], "D14": ["C18"], "D15": ["C14"],
    "D16": ["C01", "C04"], "D17": ["C02", "C03"], "D18": ["C02", "C03"], "D19": ["C12", "C05"], "D20": ["C16"], "D21": ["C16"], "D22": ["C14"], "D23": ["C09"], "D24": ["C09"], "D25": ["C18"], "D26": ["C14"], "D27": ["C14"], "D28": ["C11"],
}
# extra checks worth running for a seed besides its own property
ALSO = {"C19-B": ["C02"], "C14-B": ["C06"], "C18-B": ["C06"], "C05-A": ["C12"], "C12-B": ["C05"], "C03-A": ["C07", "C01"], "C07-B": ["C03"],
        "C02-N": ["C18"], "C18-N": ["C02"], "C05-N": ["C12"], "C12-N": ["C05"], "C04-N": ["C18"],
        "C02-B": ["C01"], "C04-A": ["C01"], "C01-B": ["C04"], "C06-B": ["C12"], "C13-A": ["C08"], "C08-B": ["C09"]}


def run_one(item, tier):
    sid, patch, reverse, props = item
    d = os.path.join(WORK, sid)
    shutil.rmtree(d, ignore_errors=True)
    os.makedirs(d)
    subprocess.run(["rsync", "-a", "--exclude", "_build", "--exclude", ".git", "/repo/", d + "/repo/"], check=True)
    r = subprocess.run(["patch", "-p1", "-s"] + (["-R"] if reverse else []) + ["-i", patch], cwd=d + "/repo", capture_output=True, text=True)
    out = {"id": sid, "patch": patch, "reverse": reverse, "results": {}}
    if r.returncode:
        out["error"] = "patch failed: " + (r.stdout + r.stderr)[-300:]
        shutil.rmtree(d, ignore_errors=True)
        return out
    env = dict(os.environ, VERIF_REPO=d + "/repo", VERIF_BUILD=d + "/build", VERIF_EVID=d + "/evidence")
    for p in props:
        t0 = time.time()
        try:
            r = subprocess.run(["./check", p, "--tier", tier], cwd=VERIF, env=env, capture_output=True, text=True, timeout=3600)
            vio = [l for l in r.stdout.splitlines() if l.startswith("VIOLATION")]
            detail = [l.strip() for l in r.stderr.splitlines() if l.strip().startswith(("M-", "[")) or "VIOLATED" in l][:3]
            out["results"][p] = {"exit": r.returncode, "violations": len(vio), "first": detail, "wall_s": round(time.time() - t0, 1)}
        except subprocess.TimeoutExpired:
            out["results"][p] = {"exit": "timeout"}
    shutil.rmtree(d, ignore_errors=True)
    return out


def main():
    args = sys.argv[1:]
    tier, jobs = "quick", 2
    ids = []
    i = 0
    while i < len(args):
        if args[i] == "--tier":
            tier = args[i + 1]
            i += 2
        elif args[i] == "--jobs":
            jobs = int(args[i + 1])
            i += 2
        else:
            ids.append(args[i])
            i += 1
    items = []
    for d in sorted(glob.glob(os.path.join(VERIF, "seeded", "C*-*"))):
        sid = os.path.basename(d)
        if ids and sid not in ids:
            continue
        prop = sid.split("-")[0]
        items.append((sid, os.path.join(d, "patch.diff"), False, [prop] + ALSO.get(sid, [])))
    for f in sorted(glob.glob(os.path.join(VERIF, "fixes", "D*.diff"))):
        did = os.path.basename(f)[:-5]
        if ids and did not in ids:
            continue
        items.append((did + "-reverted", f, True, FIX_PROPS.get(did, [])))
    for d in sorted(glob.glob(os.path.join(VERIF, "seeded", "M*"))):  # hand-made mutants: meta.json names the property
        sid = os.path.basename(d)
        if ids and sid not in ids:
            continue
        meta = json.load(open(os.path.join(d, "meta.json")))
        items.append((sid, os.path.join(d, "patch.diff"), False, [meta["breaks_property"]] + meta.get("also", [])))
    os.makedirs(WORK, exist_ok=True)
    mpath = os.path.join(VERIF, "seeded", "matrix.json")
    matrix = json.load(open(mpath)) if os.path.exists(mpath) else {}
    with cf.ThreadPoolExecutor(jobs) as ex:
        for out in ex.map(lambda it: run_one(it, tier), items):
            print(out["id"], out.get("error", ""), {p: (v["exit"], v.get("violations")) for p, v in out["results"].items()}, flush=True)
            matrix[out["id"]] = out
            json.dump(matrix, open(mpath, "w"), indent=1)
            mp = os.path.join(VERIF, "seeded", out["id"], "meta.json")
            if os.path.exists(mp):
                m = json.load(open(mp))
                m["detected_by"] = sorted(p for p, v in out["results"].items() if v.get("exit") == 1)
                m["checks_run"] = {p: v for p, v in out["results"].items()}
                json.dump(m, open(mp, "w"), indent=1)


if __name__ == "__main__":
    main()
