"""C05 on the block source `temporary`: jobs for harness/h_tempsrc.cpp (enum protocol of BUILDER_GUIDE.md).

The harness must be linked with  -Wl,--wrap=malloc,--wrap=free  (it observes the heap below default_allocator):
    checks.HARNESS_KW["h_tempsrc"] = HARNESS_KW
The jobs can be passed as `enum_jobs` to checks.run_explore_check / checks.run_enum_check."""

HARNESS = "h_tempsrc"
HARNESS_KW = {"libs": ["-Wl,--wrap=malloc,--wrap=free"]}


def jobs_tempsrc(tier):
    import checks
    return [checks.J(HARNESS, cfg, "", name=f"tempsrc[{cfg}]") for cfg in ("rwd", "dbg")]
