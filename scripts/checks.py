"""Per-property check definitions. Each check builds its harnesses from /repo's working tree,
runs an exhaustive enumeration, writes evidence and prints VIOLATION / KNOWN-FINDING lines."""
import json
import os
import shlex
import subprocess
import sys
import time

import vlib
from vlib import log

CHECKS = {}

# monitor -> properties whose statement the monitor implements
MON_OWNERS = {
    "M-disjoint": ["C01", "C02"],
    "M-inside": ["C01", "C02"],
    "M-content": ["C01"],
    "M-freelist": ["C01", "C04"],
    "M-align": ["C02"],
    "M-null": ["C03", "C02"],
    "M-fail": ["C03"],
    "M-try": ["C03"],
    "M-capacity": ["C04"],
    "M-nogrow": ["C04"],
    "M-upstream": ["C05"],
    "M-unwind": ["C06"],
    "M-iter": ["C07"],
    "M-own": ["C08"],
    "M-move": ["C12"],
    "M-leak": ["C15"],
    "M-noreport": ["C16"],
    "M-fillnew": ["C17"],
    "M-fillfree": ["C17"],
    "M-counters": ["C18"],
    "M-maxima": ["C18"],
}


def owns(prop, monitor, moves=False):
    if monitor == "M-sane":
        return True
    if prop == "C12" and moves:
        # with moves in the history every memory-safety / upstream monitor speaks about C12
        return monitor in ("M-move", "M-disjoint", "M-inside", "M-content", "M-freelist", "M-upstream", "M-leak")
    return prop in MON_OWNERS.get(monitor, [])


def J(h, cfg, args, name=None, need=(), moves=False):
    return {"h": h, "cfg": cfg, "args": args, "name": name or f"{h}[{cfg}] {args}", "need": list(need), "moves": moves}


def run_explore_check(prop, tier, jobs, only=None, time_s=None, note="", assumptions=None):
    """jobs: list of J(). Builds harnesses (per cfg), runs all jobs on all cores, aggregates."""
    t0 = time.time()
    if only:
        jobs = [j for j in jobs if only in j["name"]]
    budget = time_s or (150 if tier == "quick" else 1500)
    # build
    exes = {}
    for key in sorted({(j["h"], j["cfg"]) for j in jobs}):
        exes[key] = None
    import concurrent.futures as cf
    with cf.ThreadPoolExecutor(8) as ex:
        futs = {ex.submit(vlib.build_harness, f"harness/{h}.cpp", cfg): (h, cfg) for (h, cfg) in exes}
        for f in cf.as_completed(futs):
            exes[futs[f]] = f.result()  # BuildError propagates
    per_job_time = max(20, int(budget - (time.time() - t0) - 10))
    argv_jobs = []
    for j in jobs:
        argv = [exes[(j["h"], j["cfg"])]] + shlex.split(j["args"]) + ["--time_s", str(per_job_time), "--name", j["name"]]
        argv_jobs.append((j["name"], argv))
    results = vlib.run_jobs(argv_jobs, timeout=per_job_time + 120)
    tot_states = tot_trans = tot_replays = 0
    configs = []
    viol_lines = []
    known_lines = []
    foreign = []
    errors = []
    outcomes = set()
    samples = []
    all_fix = True
    for j, (label, rc, js, txt) in zip(jobs, results):
        if js is None:
            errors.append(f"{label}: harness produced no result (rc={rc}): {txt[-300:]}")
            continue
        tot_states += js["states"]
        tot_trans += js["transitions"]
        tot_replays += js["replays"]
        all_fix = all_fix and js["fixpoint"]
        vac = [c for c in j["need"] if js["counters"].get(c, 0) == 0]
        configs.append({"name": label, "states": js["states"], "transitions": js["transitions"], "max_depth": js["max_depth"],
                        "completed_depth": js["completed_depth"], "fixpoint": js["fixpoint"], "stop": js["stop_reason"],
                        "counters": js["counters"], "distinct_outcomes": len(js["outcomes"]), "vacuous_for": vac,
                        "wall_s": js["wall_s"]})
        for k in js["outcomes"]:
            outcomes.add(k)
        if js["samples"] and len(samples) < 6:
            samples.append({"config": label, "history": js["samples"][0][:40]})
        for e in js["harness_errors"]:
            errors.append(f"{label}: {e}")
        for v in js["violations"]:
            if not v["confirmed"]:
                continue
            rec = {"property": prop, "harness": j["h"], "cfg": j["cfg"], "args": j["args"], "monitor": v["monitor"], "tag": v["tag"],
                   "detail": v["detail"], "history": v["history"], "ops": v["ops"], "fingerprint": f"{j['h']}|{v['fingerprint']}"}
            if owns(prop, v["monitor"], j["moves"]):
                kf = vlib.match_known(prop, rec["fingerprint"])
                if kf:
                    known_lines.append(f"KNOWN-FINDING: property={prop} {kf['what']}")
                else:
                    rp = vlib.write_replay(prop, rec)
                    viol_lines.append((rp, rec))
            else:
                foreign.append({"monitor": v["monitor"], "tag": v["tag"], "config": label, "detail": v["detail"]})
    wall = time.time() - t0
    vac_cfgs = [c["name"] for c in configs if c["vacuous_for"]]
    cov = {
        "states": max(tot_states, 1) if configs else 0,
        "transitions": max(tot_trans, 1) if configs else 0,
        "traces_validated_against_impl": tot_replays,
        "samples": samples or [{"note": "no samples"}],
        "exhaustive": bool(all_fix and not errors),
        "configurations": len(configs),
        "configurations_to_fixpoint": sum(1 for c in configs if c["fixpoint"]),
        "vacuous_configurations": vac_cfgs,
        "distinct_outcomes": len(outcomes),
        "outcome_labels": sorted(outcomes),
        "per_configuration": configs,
        "foreign_violations": foreign[:20],
        "harness_errors": errors[:20],
        "known_findings_hit": sorted(set(known_lines)),
        "explanation": note,
    }
    vlib.write_evidence(prop, tier, "model_checking", cov, wall, len(viol_lines), assumptions=assumptions)
    for l in sorted(set(known_lines)):
        print(l)
    for f in foreign[:5]:
        log(f"note: monitor {f['monitor']} ({f['tag']}) of another property fired in {f['config']}: {f['detail']}")
    if errors:
        for e in errors[:10]:
            log("HARNESS ERROR: " + e)
    log(f"{prop} {tier}: {len(configs)} configurations, {tot_states} states, {tot_trans} transitions, "
        f"{sum(1 for c in configs if c['fixpoint'])} to fixpoint, {len(vac_cfgs)} vacuous, {len(viol_lines)} violation(s), {wall:.1f}s")
    if viol_lines:
        for rp, rec in viol_lines:
            print(f"VIOLATION property={prop} replay={rp}")
            log(f"  {rec['monitor']} [{rec['tag']}] {rec['detail']}\n  config: {rec['harness']}[{rec['cfg']}] {rec['args']}\n  history: {rec['history']}")
        return 1
    if errors:
        # harness errors are not property violations, but the run is not trustworthy
        return 3
    return 0


def replay(prop, path):
    rec = json.load(open(path))
    if rec.get("kind") == "build-failure":
        print(rec["message"])
        return 1
    if rec.get("kind") == "command":
        r = subprocess.run(rec["argv"], cwd=vlib.VERIF)
        return r.returncode
    exe = vlib.build_harness(f"harness/{rec['harness']}.cpp", rec["cfg"])
    argv = [exe] + shlex.split(rec["args"]) + ["--replay", ",".join(str(o) for o in rec["ops"])]
    print("replaying:", " ".join(argv))
    print("expected :", rec["monitor"], rec["tag"], "-", rec["detail"])
    r = subprocess.run(argv)
    return 1 if r.returncode == 1 else r.returncode


# ------------------------------------------------------------------ exploration suites
def pool_suite(tier, cfgs, extra="", fams=("member",), need=()):
    """memory_pool configurations chosen to collide: tiny blocks (3-5 nodes) so that growth, exhaustion,
    reuse and array search across gaps all happen inside the bound."""
    out = []
    q = tier == "quick"
    for cfg in cfgs:
        for fam in fams:
            if fam == "member":
                shapes = [
                    ("node", "constant", "--ns 16 --bs 80 --L 5 --B 3 --arrays 2", ("grew",)),
                    ("node", "fixed", "--ns 16 --bs 96 --L 6 --B 2 --arrays 2", ("alloc_oom",)),
                    ("array", "constant", "--ns 16 --bs 80 --L 5 --B 3 --arrays 2", ("grew",)),
                    ("array", "constant", "--ns 16 --bs 96 --L 4 --B 2 --arrays 3", ("grew",)),
                    ("array", "fixed", "--ns 16 --bs 112 --L 6 --B 2 --arrays 2,3", ("alloc_oom",)),
                    ("small", "constant", "--ns 4 --bs 64 --L 6 --B 3", ("grew",)),
                    ("small", "fixed", "--ns 1 --bs 48 --L 6 --B 2", ("alloc_oom",)),
                ]
                if not q:
                    shapes += [
                        ("node", "growing", "--ns 16 --bs 64 --L 6 --B 3 --arrays 2", ("grew",)),
                        ("node", "constant", "--ns 8 --bs 56 --L 6 --B 3 --arrays 3", ("grew",)),
                        ("node", "constant", "--ns 24 --bs 112 --L 5 --B 3 --arrays 2", ("grew",)),
                        ("array", "growing", "--ns 16 --bs 64 --L 6 --B 3 --arrays 2", ("grew",)),
                        ("array", "constant", "--ns 8 --bs 64 --L 6 --B 3 --arrays 2,4", ("grew",)),
                        ("array", "constant", "--ns 24 --bs 112 --L 5 --B 3 --arrays 2", ("grew",)),
                        ("array", "constant", "--ns 16 --bs 80 --L 7 --B 4 --arrays 2", ("grew",)),
                        ("small", "growing", "--ns 3 --bs 48 --L 7 --B 3", ("grew",)),
                        ("small", "constant", "--ns 8 --bs 64 --L 6 --B 4", ("grew",)),
                    ]
            elif fam == "traits":
                shapes = [
                    ("node", "constant", "--fam traits --ns 16 --bs 80 --L 5 --B 3 --sizes 16,8 --tarrays 3x8,2x16", ("grew",)),
                    ("array", "constant", "--fam traits --ns 16 --bs 80 --L 5 --B 3 --sizes 16,5 --tarrays 3x8,5x4", ("grew",)),
                    ("small", "constant", "--fam traits --ns 4 --bs 64 --L 6 --B 3 --sizes 4,2", ("grew",)),
                ]
                if not q:
                    shapes += [
                        ("array", "constant", "--fam traits --ns 24 --bs 112 --L 5 --B 3 --sizes 24,9 --tarrays 5x9,2x24", ("grew",)),
                        ("node", "growing", "--fam traits --ns 8 --bs 56 --L 6 --B 3 --sizes 8,3 --tarrays 3x5", ("grew",)),
                    ]
            else:  # composable
                shapes = [
                    ("node", "fixed", "--fam compose --ns 16 --bs 96 --L 6 --B 2 --sizes 16,8 --tarrays 3x8 --tryrel 1", ("try_returned_null",)),
                    ("array", "fixed", "--fam compose --ns 16 --bs 112 --L 6 --B 2 --sizes 16 --tarrays 3x8,2x16 --tryrel 1", ("try_returned_null",)),
                    ("small", "fixed", "--fam compose --ns 4 --bs 48 --L 6 --B 2 --sizes 4,1 --tryrel 1", ("try_returned_null",)),
                ]
            for t, src, args, nd in shapes:
                a = f"--type {t} --src {src} {args} --arena 1024 {extra}".strip()
                out.append(J("h_pool", cfg, a, name=f"pool/{t}/{src}[{cfg}] {args} {extra}".strip(), need=tuple(nd) + tuple(need),
                             moves="--moves" in extra))
    return out


def check_C04(prop, tier, only):
    cfgs = ["rwd", "dbg"] if tier == "quick" else ["rel", "rwd", "dbg"]
    jobs = pool_suite(tier, cfgs, extra="--tries 1", fams=("member", "traits"))
    return run_explore_check(prop, tier, jobs, only,
                             note="BFS over all histories of allocate/release (nodes, arrays, try_ variants) on real memory_pool objects; "
                                  "M-capacity: free nodes + nodes held by live allocations never decreases and is constant without growth; "
                                  "M-nogrow: a single node request never grows while the list holds a node; "
                                  "M-freelist: nodes reachable from the list head == capacity counter, all inside owned blocks, none live")


CHECKS["C04"] = check_C04
