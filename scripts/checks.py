"""Per-property check definitions. Each check builds its harnesses from /repo's working tree,
runs an exhaustive enumeration, writes evidence and prints VIOLATION / KNOWN-FINDING lines."""
import json
import os
import shlex
import subprocess
import sys
import time

import vlib
from vlib import log

CHECKS = {}

# extra build arguments per harness
HARNESS_KW = {
    "h_arena": {"libs": ["-Wl,--wrap=mmap,--wrap=munmap,--wrap=mprotect,--wrap=madvise"]},
    "h_lowlevel": {"libs": ["-Wl,--wrap=malloc,--wrap=mmap,--wrap=mprotect"]},
    "h_tempsrc": {"libs": ["-Wl,--wrap=malloc,--wrap=free"]},
    "h_jointlife": {"opt": "-O2"},
}

# histories with a FAILED growth of a growing block source (the failure must leave block size / next_capacity / the stack's
# behaviour after unwind alone): not run through _shrink, the histories need three requests to reach a growth
def growfail_jobs(tier, cfgs, twin=1):
    out = []
    for cfg in cfgs:
        out.append(J("h_stack", cfg, f"--src growing --bs 64 --reqs 8x8,24x1 --L 3 --B 3 --markers {2 if twin else 1} --arena 1024 --tries 1 --faults 1 --twin {twin}",
                     name=f"stack/growing+failed-growth[{cfg}]", need=("alloc_upstream_failure", "grew")))
        if not twin:
            out.append(J("h_pool", cfg, "--type node --src growing --ns 16 --bs 64 --L 3 --B 2 --arrays 2 --arena 1024 --tries 1 --faults 1 --max_states 400000",
                         name=f"pool/node/growing+failed-growth[{cfg}]", need=("alloc_upstream_failure", "grew")))
            out.append(J("h_coll", cfg, "--type array --buckets log2 --src growing --maxns 16 --bs 192 --sizes 8,16 --arrays 3x8 --L 3 --B 2 --arena 2048 --tries 1 --faults 1",
                         name=f"coll/array/growing+failed-growth[{cfg}]", need=("alloc_upstream_failure", "grew")))
    return out

# monitor -> properties whose statement the monitor implements
MON_OWNERS = {
    "M-disjoint": ["C01", "C02", "C03"],
    "M-inside": ["C01", "C02", "C03"],
    "M-content": ["C01", "C03"],
    "M-freelist": ["C01", "C04"],
    "M-align": ["C02"],
    "M-null": ["C03", "C02"],
    "M-fail": ["C03"],
    "M-try": ["C03"],
    "M-capacity": ["C04"],
    "M-nogrow": ["C04"],
    "M-upstream": ["C05"],
    "M-unwind": ["C06"],
    "M-iter": ["C07", "C01"],
    "M-own": ["C08"],
    "M-move": ["C12"],
    "M-leak": ["C15"],
    "M-noreport": ["C16"],
    "M-report": ["C16"],
    "M-fillnew": ["C17"],
    "M-fillfree": ["C17"],
    "M-counters": ["C18"],
    "M-own-unused": [],
    "M-maxima": ["C18"],
}


def owns(prop, monitor, moves=False):
    if monitor == "M-sane":
        return True
    if prop == "C12" and moves:
        # with moves in the history every memory-safety / upstream monitor speaks about C12
        # (a valid release through the new owner that gets reported as invalid is a C12 failure as well)
        return monitor in ("M-move", "M-disjoint", "M-inside", "M-content", "M-freelist", "M-upstream", "M-leak", "M-noreport")
    return prop in MON_OWNERS.get(monitor, [])


def J(h, cfg, args, name=None, need=(), moves=False, own=()):
    return {"h": h, "cfg": cfg, "args": args, "name": name or f"{h}[{cfg}] {args}", "need": list(need), "moves": moves, "own": list(own)}


def run_explore_check(prop, tier, jobs, only=None, time_s=None, note="", assumptions=None, enum_jobs=None):
    """jobs: list of J(). Builds harnesses (per cfg), runs all jobs on all cores, aggregates."""
    t0 = time.time()
    if only:
        jobs = [j for j in jobs if only in j["name"]]
    budget = time_s or (100 if tier == "quick" else 1500)
    # build
    exes = {}
    for key in sorted({(j["h"], j["cfg"]) for j in jobs}):
        exes[key] = None
    import concurrent.futures as cf
    with cf.ThreadPoolExecutor(8) as ex:
        futs = {ex.submit(vlib.build_harness, f"harness/{h}.cpp", cfg, **HARNESS_KW.get(h, {})): (h, cfg) for (h, cfg) in exes}
        for f in cf.as_completed(futs):
            exes[futs[f]] = f.result()  # BuildError propagates
    # wall budget: quick ~ 35 s per configuration; thorough: 1400 s of 16 cores shared by all configurations
    if tier == "quick":
        per_job_time = 35
    else:
        per_job_time = int(max(60, min(900, 1400 * vlib.NCPU / max(1, len(jobs)))))
    argv_jobs = []
    all_mon = sorted(set(MON_OWNERS) | {"M-report"})
    for j in jobs:
        owned = [m for m in all_mon if owns(prop, m, j["moves"]) or m in j.get("own", [])]
        argv = [exes[(j["h"], j["cfg"])]] + shlex.split(j["args"]) + ["--time_s", str(per_job_time), "--name", j["name"], "--own", ",".join(owned) or "M-sane"]
        argv_jobs.append((j["name"], argv))
    results = vlib.run_jobs(argv_jobs, timeout=per_job_time + 120)
    tot_states = tot_trans = tot_replays = 0
    configs = []
    viol_lines = []
    known_lines = []
    foreign = []
    errors = []
    outcomes = set()
    samples = []
    all_fix = True
    for j, (label, rc, js, txt) in zip(jobs, results):
        if js is None:
            errors.append(f"{label}: harness produced no result (rc={rc}): {txt[-300:]}")
            continue
        tot_states += js["states"]
        tot_trans += js["transitions"]
        tot_replays += js["replays"]
        all_fix = all_fix and js["fixpoint"]
        vac = [c for c in j["need"] if js["counters"].get(c, 0) == 0]
        configs.append({"name": label, "states": js["states"], "transitions": js["transitions"], "max_depth": js["max_depth"],
                        "completed_depth": js["completed_depth"], "fixpoint": js["fixpoint"], "stop": js["stop_reason"],
                        "counters": js["counters"], "distinct_outcomes": len(js["outcomes"]), "vacuous_for": vac,
                        "wall_s": js["wall_s"]})
        for k in js["outcomes"]:
            outcomes.add(k)
        if js["samples"] and len(samples) < 6:
            samples.append({"config": label, "history": js["samples"][0][:40]})
        for e in js["harness_errors"]:
            errors.append(f"{label}: {e}")
        for v in js["violations"]:
            if not v["confirmed"]:
                continue
            rec = {"property": prop, "harness": j["h"], "cfg": j["cfg"], "args": j["args"], "monitor": v["monitor"], "tag": v["tag"],
                   "detail": v["detail"], "history": v["history"], "ops": v["ops"], "fingerprint": f"{j['h']}|{v['fingerprint']}"}
            if owns(prop, v["monitor"], j["moves"]) or v["monitor"] in j.get("own", []):
                kf = vlib.match_known(prop, rec["fingerprint"])
                if kf:
                    known_lines.append(f"KNOWN-FINDING: property={prop} {kf['what']}")
                else:
                    rp = vlib.write_replay(prop, rec)
                    viol_lines.append((rp, rec))
            else:
                foreign.append({"monitor": v["monitor"], "tag": v["tag"], "config": label, "detail": v["detail"]})
    enum_cov, enum_viol, enum_errors = None, [], []
    if enum_jobs:
        ej = [j for j in enum_jobs if not only or only in j["name"]]
        if ej:
            enum_cov, enum_viol, enum_known, enum_errors = _run_enum(prop, tier, ej)
            known_lines += enum_known
    wall = time.time() - t0
    vac_cfgs = [c["name"] for c in configs if c["vacuous_for"]]
    cov = {
        "states": max(tot_states, 1) if configs else 0,
        "transitions": max(tot_trans, 1) if configs else 0,
        "traces_validated_against_impl": tot_replays,
        "samples": samples or [{"note": "no samples"}],
        "exhaustive": bool(all_fix and not errors),
        "configurations": len(configs),
        "configurations_to_fixpoint": sum(1 for c in configs if c["fixpoint"]),
        "vacuous_configurations": vac_cfgs,
        "distinct_outcomes": len(outcomes),
        "outcome_labels": sorted(outcomes),
        "per_configuration": configs,
        "foreign_violations": foreign[:20],
        "harness_errors": errors[:20],
        "known_findings_hit": sorted(set(known_lines)),
        "explanation": note,
    }
    if enum_cov is not None:
        cov["enumeration_part"] = enum_cov
        cov["evaluations"] = enum_cov["evaluations"]
        cov["distinct_nontrivial"] = enum_cov["distinct_nontrivial"]
        cov["rule"] = enum_cov["rule"]
        cov["exhaustive"] = bool(cov["exhaustive"] and enum_cov["exhaustive"])
        errors += enum_errors
        cov["harness_errors"] = errors[:20]
    vlib.write_evidence(prop, tier, "model_checking", cov, wall, len(viol_lines) + len(enum_viol), assumptions=assumptions)
    for l in sorted(set(known_lines)):
        print(l)
    for f in foreign[:5]:
        log(f"note: monitor {f['monitor']} ({f['tag']}) of another property fired in {f['config']}: {f['detail']}")
    if errors:
        for e in errors[:10]:
            log("HARNESS ERROR: " + e)
    log(f"{prop} {tier}: {len(configs)} configurations, {tot_states} states, {tot_trans} transitions, "
        f"{sum(1 for c in configs if c['fixpoint'])} to fixpoint, {len(vac_cfgs)} vacuous, {len(viol_lines)} violation(s), {wall:.1f}s")
    rc_enum = _report_enum_viol(prop, enum_viol, []) if enum_viol else 0
    if viol_lines:
        for rp, rec in viol_lines:
            print(f"VIOLATION property={prop} replay={rp}")
            log(f"  {rec['monitor']} [{rec['tag']}] {rec['detail']}\n  config: {rec['harness']}[{rec['cfg']}] {rec['args']}\n  history: {rec['history']}")
        return 1
    if rc_enum:
        return 1
    if errors:
        # harness errors are not property violations, but the run is not trustworthy
        return 3
    return 0


def replay(prop, path):
    rec = json.load(open(path))
    if rec.get("kind") == "build-failure":
        print(rec["message"])
        return 1
    if rec.get("kind") == "command":
        r = subprocess.run(rec["argv"], cwd=vlib.VERIF)
        return r.returncode
    if rec.get("kind") == "enum":
        return replay_enum(rec)
    exe = vlib.build_harness(f"harness/{rec['harness']}.cpp", rec["cfg"], **HARNESS_KW.get(rec["harness"], {}))
    argv = [exe] + shlex.split(rec["args"]) + ["--replay", ",".join(str(o) for o in rec["ops"])]
    print("replaying:", " ".join(argv))
    print("expected :", rec["monitor"], rec["tag"], "-", rec["detail"])
    r = subprocess.run(argv)
    return 1 if r.returncode == 1 else r.returncode


# ------------------------------------------------------------------ exploration suites
# Every suite is a list of SMALL configurations chosen to collide (tiny blocks so that growth, exhaustion,
# reuse, array search across gaps, cache reuse ... happen inside the bound); each is explored to fixpoint.
def _mv(extra):
    return "--moves" in extra


def _shrink(args, extra, tier):
    """moves / upstream faults multiply the state space: use one live allocation less (two less in quick for moves)"""
    import re
    d = 0
    if "--moves" in extra:
        d += 2 if tier == "quick" else 1
    if "--faults" in extra and "--faults 0" not in extra:
        d += 1
    if d == 0:
        return args
    lo = 2 if "--moves" in extra else 3  # with L 2 several shapes no longer reach their second block (vacuous for growth)
    args = re.sub(r"--L (\d+)", lambda m: f"--L {max(min(lo, int(m.group(1))), int(m.group(1)) - d)}", args)
    if "--moves" in extra:
        args = re.sub(r"--markers (\d+)", "--markers 1", args) + " --twin 0"
    return args


def pool_suite(tier, cfgs, extra="", fams=("member",), need=()):
    out = []
    q = tier == "quick"
    for cfg in cfgs:
        for fam in fams:
            if fam == "member":
                shapes = [
                    ("node", "constant", "--ns 16 --bs 64 --L 4 --B 2 --arrays 1,2", ("grew",)),  # array of ONE node: same boundary as a node
                    ("node", "constant", "--ns 16 --bs 96 --L 3 --B 2 --arrays 3 --max_states 400000", ("grew",)),
                    ("node", "constant", "--ns 16 --bs 144 --L 3 --B 1 --arrays 3,4 --max_states 400000", ()),  # a too short run directly in front of the run that serves the array
                    ("node", "fixed", "--ns 16 --bs 96 --L 6 --B 2 --arrays 2", ("alloc_oom",)),
                    ("array", "constant", "--ns 16 --bs 80 --L 5 --B 3 --arrays 2", ("grew",)),
                    ("array", "constant", "--ns 16 --bs 96 --L 4 --B 2 --arrays 3 --objhi 1", ("grew",)),
                    ("array", "fixed", "--ns 16 --bs 112 --L 6 --B 2 --arrays 2,3", ("alloc_oom",)),
                    ("small", "fixed", "--ns 1 --bs 304 --L 3 --B 2 --bulk 254 --arena 4096 --snap 1", ("alloc_oom", "bulk_allocated")),
                    ("small", "constant", "--ns 1 --bs 304 --L 2 --B 2 --bulk 254 --arena 4096 --snap 1 --max_states 120000", ("grew", "bulk_allocated")),
                    # non-monotonic block addresses (third block between the first two), three chunks of a small-node pool
                    ("small", "constant", "--ns 1 --bs 304 --L 3 --B 3 --bulk 254 --bulk_rounds 3 --arena 2048 --place alt --snap 1 --destroy 0 --max_states 100000", ("grew", "bulk_allocated")),
                    ("array", "constant", "--ns 16 --bs 80 --L 4 --B 3 --arrays 2 --place alt", ("grew",)),
                    # descending block addresses and blocks of TWO chunks: a new run of chunks is linked in front of existing ones
                    ("small", "constant", "--ns 1 --bs 576 --L 1 --B 2 --bulk 255 --bulk_rounds 3 --arena 2048 --place desc --snap 1 --destroy 0 --max_states 30000", ("grew", "bulk_allocated")),
                ]
                if not q:
                    shapes += [
                        ("node", "constant", "--ns 16 --bs 80 --L 4 --B 2 --arrays 2 --objhi 1", ("grew",)),
                        ("node", "growing", "--ns 16 --bs 64 --L 5 --B 3 --arrays 2", ("grew",)),
                        ("node", "constant", "--ns 8 --bs 56 --L 5 --B 3 --arrays 3", ("grew",)),
                        ("node", "constant", "--ns 24 --bs 112 --L 5 --B 2 --arrays 2", ("grew",)),
                        ("array", "growing", "--ns 16 --bs 64 --L 6 --B 3 --arrays 2", ("grew",)),
                        ("array", "constant", "--ns 8 --bs 64 --L 6 --B 3 --arrays 2,4", ("grew",)),
                        ("array", "constant", "--ns 24 --bs 112 --L 5 --B 3 --arrays 2 --objhi 1", ("grew",)),
                        ("array", "constant", "--ns 16 --bs 80 --L 7 --B 4 --arrays 2", ("grew",)),
                        ("array", "constant", "--ns 16 --bs 80 --L 6 --B 3 --arrays 2,3", ("grew",)),
                        ("small", "constant", "--ns 4 --bs 1088 --L 3 --B 2 --bulk 253 --arena 8192 --snap 1", ("grew", "bulk_allocated")),
                        ("small", "growing", "--ns 1 --bs 304 --L 3 --B 3 --bulk 254 --arena 4096 --snap 1", ("grew", "bulk_allocated")),
                        ("small", "fixed", "--ns 1 --bs 304 --L 4 --B 2 --bulk 253 --arena 4096 --snap 1", ("alloc_oom", "bulk_allocated")),
                        ("small", "constant", "--ns 1 --bs 304 --L 3 --B 2 --bulk 253 --arena 4096 --snap 1", ("grew", "bulk_allocated")),
                        ("small", "constant", "--ns 1 --bs 304 --L 3 --B 3 --bulk 254 --bulk_rounds 3 --arena 2048 --place alt --snap 1 --max_states 1500000", ("grew", "bulk_allocated")),
                        ("array", "constant", "--ns 16 --bs 80 --L 5 --B 3 --arrays 2,3 --place alt", ("grew",)),
                        ("node", "constant", "--ns 16 --bs 80 --L 4 --B 3 --arrays 2 --place alt", ("grew",)),
                        ("small", "constant", "--ns 1 --bs 576 --L 2 --B 2 --bulk 255 --bulk_rounds 3 --arena 2048 --place desc --snap 1 --max_states 400000", ("grew", "bulk_allocated")),
                        ("array", "constant", "--ns 16 --bs 80 --L 5 --B 3 --arrays 2 --place desc", ("grew",)),
                    ]
            elif fam == "traits":
                shapes = [
                    ("node", "constant", "--fam traits --ns 16 --bs 64 --L 4 --B 2 --sizes 16,8 --tarrays 3x8,2x8,4x4", ("grew",)),  # 2x8, 4x4: arrays whose total size is exactly one node (more elements than nodes)
                    ("array", "constant", "--fam traits --ns 16 --bs 80 --L 4 --B 2 --sizes 16,5 --tarrays 3x8,5x4", ("grew",)),
                    ("small", "fixed", "--fam traits --ns 1 --bs 304 --L 3 --B 2 --sizes 1 --bulk 254 --arena 4096 --snap 1", ("alloc_oom",)),
                ]
                if not q:
                    shapes += [
                        ("array", "constant", "--fam traits --ns 16 --bs 80 --L 5 --B 3 --sizes 16 --tarrays 3x8", ("grew",)),
                        ("array", "constant", "--fam traits --ns 24 --bs 112 --L 5 --B 3 --sizes 24,9 --tarrays 5x9,2x24", ("grew",)),
                        ("node", "growing", "--fam traits --ns 8 --bs 56 --L 5 --B 3 --sizes 8,3 --tarrays 3x5", ("grew",)),
                    ]
            else:  # composable
                shapes = [
                    ("node", "fixed", "--fam compose --ns 16 --bs 96 --L 6 --B 2 --sizes 16,8,24 --tarrays 3x8 --tryrel 1", ("try_returned_null",)),  # 24: larger than a node, must be refused
                    ("array", "fixed", "--fam compose --ns 16 --bs 112 --L 6 --B 2 --sizes 16 --tarrays 3x8,2x16 --tryrel 1", ("try_returned_null",)),
                    ("small", "fixed", "--fam compose --ns 1 --bs 304 --L 3 --B 2 --sizes 1 --bulk 254 --arena 4096 --snap 1 --tryrel 1", ("try_returned_null",)),
                ]
            if q and cfg != cfgs[0]:
                shapes = shapes[::2] if fam == "member" else shapes[:1]
            for t, src, args, nd in shapes:
                if "--arena" not in args:
                    args += " --arena 1024"
                args = _shrink(args, extra, tier)
                a = f"--type {t} --src {src} {args} {extra}".strip()
                out.append(J("h_pool", cfg, a, name=f"pool/{t}/{src}[{cfg}] {args} {extra}".strip(), need=tuple(nd) + tuple(need), moves=_mv(extra)))
    return out


def coll_suite(tier, cfgs, extra="", fams=("member",), need=()):
    out = []
    q = tier == "quick"
    for cfg in cfgs:
        for fam in fams:
            f = "" if fam == "member" else ("--fam traits" if fam == "traits" else "--fam compose --tryrel 1")
            shapes = [
                ("array", "log2", "fixed", "--maxns 32 --bs 288 --sizes 8,16,20 --arrays 2x16,3x8 --L 4 --B 2", ("reserved_from_arena",)),
                ("array", "identity", "constant", "--maxns 12 --bs 416 --sizes 8,12 --arrays 2x12 --L 3 --B 2", ("reserved_from_arena", "grew")),
                ("array", "log2", "constant", "--maxns 16 --bs 192 --sizes 8 --arrays 3x5,19x5 --L 3 --B 2", ("reserved_from_arena", "grew")),
                ("node", "log2", "fixed", "--maxns 16 --bs 224 --sizes 16 --arrays 2x16,1x16 --L 3 --B 2 --max_states 300000", ("reserved_from_arena",)),  # 1x16: array of ONE element
                ("small", "identity", "constant", "--maxns 4 --bs 2000 --sizes 1,4 --L 3 --B 2 --arena 8192", ("reserved_from_arena",)),
                # later blocks at LOWER addresses than earlier ones
                ("array", "log2", "constant", "--maxns 16 --bs 192 --sizes 8,16 --arrays 3x8 --L 3 --B 3 --place desc", ("grew",)),
                # arrays with more elements than nodes (element size below the bucket's node size)
                ("array", "log2", "constant", "--maxns 16 --bs 192 --sizes 8,1 --arrays 8x1,5x1 --L 4 --B 2", ("reserved_from_arena",)),
            ]
            if not q:
                shapes += [
                    ("array", "log2", "constant", "--maxns 32 --bs 288 --sizes 8,16,20 --arrays 2x16 --L 4 --B 2", ("grew",)),
                    ("array", "log2", "growing", "--maxns 16 --bs 192 --sizes 8,16 --arrays 3x8,9x5 --L 4 --B 2", ("grew",)),
                    ("array", "log2", "fixed", "--maxns 32 --bs 288 --sizes 8,16,20 --arrays 2x16,3x8 --L 5 --B 2 --objhi 1", ("reserved_from_arena",)),
                    ("array", "identity", "constant", "--maxns 12 --bs 416 --sizes 8,12 --arrays 2x12,5x9 --L 4 --B 2", ("reserved_from_arena",)),
                    ("node", "log2", "constant", "--maxns 16 --bs 192 --sizes 8 --arrays 3x5,19x5 --L 2 --B 2", ("grew",)),
                    ("node", "identity", "fixed", "--maxns 12 --bs 416 --sizes 8,12 --arrays 2x12 --L 3 --B 2", ("reserved_from_arena",)),
                    ("small", "log2", "constant", "--maxns 4 --bs 2000 --sizes 1,3,4 --L 4 --B 2 --arena 8192", ("reserved_from_arena",)),
                ]
            if q and cfg != cfgs[0]:
                shapes = shapes[::2]
            for t, bk, src, args, nd in shapes:
                if fam == "compose" and src != "fixed":
                    continue
                if cfg in ("dbg", "dbg16", "chk") and "--bs 288" in args and src == "fixed":
                    # with debug fences around every node a 288 byte block is used up before an array needs its own reservation
                    args = args.replace("--bs 288", "--bs 416") + " --max_states 250000"
                if "--arena" not in args:
                    args += " --arena 2048"
                args = _shrink(args, extra, tier)
                if _mv(extra):
                    nd = ()  # two live allocations do not exhaust a block: the move jobs are about the moves, growth is covered by the other jobs
                a = f"--type {t} --buckets {bk} --src {src} {f} {args} {extra}".strip()
                out.append(J("h_coll", cfg, a, name=f"coll/{t}/{bk}/{src}[{cfg}] {f} {args} {extra}".strip(), need=tuple(nd) + tuple(need), moves=_mv(extra)))
    return out


def stack_suite(tier, cfgs, extra="", fams=("member",), need=()):
    out = []
    q = tier == "quick"
    for cfg in cfgs:
        for fam in fams:
            f = "" if fam == "member" else ("--fam traits" if fam == "traits" else "--fam compose --tryrel 1")
            shapes = [
                ("growing", "--bs 64 --reqs 8x8,24x1 --L 3 --B 3 --markers 2", ("unwound_across_blocks", "reused_cached_block")),
                ("constant", "--bs 64 --reqs 40x1,8x8 --L 4 --B 4 --markers 2", ("unwound_across_blocks",)),
                ("constant", "--bs 64 --reqs 100x1,13x16,3x1 --L 4 --B 3 --markers 1", ("alloc_bad_size",)),
                ("constant", "--bs 64 --reqs 40x32,8x8 --L 3 --B 3 --markers 1", ("alloc_bad_size",)),
                ("fixed", "--bs 96 --reqs 13x1,8x16,3x32 --L 5 --B 2 --markers 2", ("alloc_oom",)),
                # newer blocks at LOWER addresses than older ones (marker order must follow allocation order, not addresses)
                ("constant", "--bs 64 --reqs 40x1,8x8 --L 4 --B 4 --markers 2 --place alt", ("unwound_across_blocks",)),
            ]
            if not q:
                shapes += [
                    ("growing", "--bs 64 --reqs 8x8,24x1,3x1 --L 4 --B 3 --markers 2", ("unwound_across_blocks",)),
                    ("growing", "--bs 80 --reqs 13x16,40x1 --L 4 --B 3 --markers 3", ("unwound_across_blocks",)),
                    ("constant", "--bs 64 --reqs 40x1,8x8,1x1 --L 5 --B 4 --markers 3", ("unwound_across_blocks",)),
                    ("constant", "--bs 96 --reqs 24x32,8x8 --L 4 --B 3 --markers 2 --objhi 1", ("unwound_across_blocks",)),
                    ("growing", "--bs 64 --reqs 8x8,24x1 --L 4 --B 3 --markers 2 --place alt", ("unwound_across_blocks",)),
                    ("fixed", "--bs 128 --reqs 13x1,8x16,3x64 --L 6 --B 2 --markers 2", ("alloc_oom",)),
                ]
            if q and cfg != cfgs[0]:
                shapes = shapes[::2]
            for src, args, nd in shapes:
                args = _shrink(args, extra, tier)  # (twin comparison off with moves: the twin snapshot belongs to one slot)
                a = f"--src {src} {f} {args} --arena 1024 {extra}".strip()
                if fam != "member":
                    nd = tuple(x for x in nd if x not in ("alloc_bad_size",))
                out.append(J("h_stack", cfg, a, name=f"stack/{src}[{cfg}] {f} {args} {extra}".strip(), need=tuple(nd) + tuple(need), moves=_mv(extra)))
    return out


def iter_suite(tier, cfgs, extra="", need=()):
    out = []
    q = tier == "quick"
    for cfg in cfgs:
        if q:
            combos = [(1, 37), (2, 64), (2, 65), (3, 100), (3, 101), (3, 104), (4, 99), (5, 128), (5, 131), (3, 1025)]
            if cfg != cfgs[0]:
                combos = combos[1::2]
        else:
            combos = [(n, bs) for n in (1, 2, 3, 4, 5) for bs in list(range(60, 60 + 4 * n + 3)) + [1025, 1024 + n + 1]]
        for n, bs in combos:
            region = bs // n
            big = max(region - 5, 9)
            reqs = f"{big}x1,8x8" + (",3x16" if n <= 3 else "")
            args = _shrink(f"--N {n} --bs {bs} --reqs {reqs} --L {3 if n <= 3 else 2} --arena 2048 --tries 1", extra, tier).replace(" --twin 0", "")
            out.append(J("h_iter", cfg, f"{args} {extra}".strip(), name=f"iter<{n}>/{bs}[{cfg}] {extra}".strip(), need=("alloc_oom",) + tuple(need), moves=_mv(extra)))
    return out


def static_suite(tier, cfgs, extra="", need=()):
    out = []
    q = tier == "quick"
    for cfg in cfgs:
        shapes = [("member", "--bs 100 --reqs 13x1,8x16,3x32 --L 6"), ("traits", "--bs 96 --reqs 24x8,5x1 --L 5")]
        if not q:
            shapes += [("member", "--bs 131 --reqs 40x1,8x16,1x64 --L 6"), ("traits", "--bs 64 --reqs 7x1,8x8 --L 6")]
        for fam, args in shapes:
            a = _shrink(f"{args} --fam {fam} --B 2 --arena 1024", extra, tier).replace(" --twin 0", "")
            out.append(J("h_static", cfg, f"{a} {extra}".strip(), name=f"static[{cfg}] {fam} {args} {extra}".strip(), need=("alloc_oom",) + tuple(need), moves=_mv(extra)))
    return out


def arena_suite(tier, cfgs, extra="", need=()):
    out = []
    q = tier == "quick"
    for cfg in cfgs:
        for src in ("constant", "fixed", "static", "virtual", "growing"):
            for cached in (1, 0):
                L = 4 if (q or src == "growing") else 5
                B = 3 if src == "growing" else 4
                if src == "virtual":
                    args = _shrink(f"--src virtual --cached {cached} --storage 12288 --L {min(L, 3)} --B 2 --arena 32768", extra, tier).replace(" --twin 0", "")
                else:
                    args = _shrink(f"--src {src} --cached {cached} --bs 64 --storage 128 --L {L} --B {B} --arena 2048", extra, tier).replace(" --twin 0", "")
                nd = ("reused_cached_block",) if cached else ("acquired_fresh_block",)
                out.append(J("h_arena", cfg, f"{args} {extra}".strip(), name=f"arena/{src}/{'cached' if cached else 'uncached'}[{cfg}] {extra}".strip(),
                             need=nd + tuple(need), moves=_mv(extra)))
    return out


def cfgs_for(tier, quick=("rwd", "dbg"), thorough=("rel", "rwd", "dbg")):
    return list(quick if tier == "quick" else thorough)


NOTE_BFS = ("explicit-state breadth-first search over operation histories of the REAL allocator objects (state = raw bytes of the object(s), "
            "the deterministic first-fit upstream arena and the shadow model; every state re-built from scratch and keyed again: canon-on-replay); ")


def check_C01(prop, tier, only):
    c = cfgs_for(tier)
    jobs = (pool_suite(tier, c, extra="--tries 1", fams=("member", "traits")) + coll_suite(tier, c, extra="--tries 1", fams=("member",))
            + stack_suite(tier, c, extra="--tries 1") + iter_suite(tier, c) + arena_suite(tier, c[:1]) + static_suite(tier, c)
            # "... and moves": the same memory-safety monitors with move construct / move assign / swap in the alphabet
            + iter_suite(tier, c[:1], extra="--moves 2") + pool_suite(tier, c[:1], extra="--moves 2") + stack_suite(tier, c[:1], extra="--moves 2")
            + coll_suite(tier, c[:1], extra="--moves 2")
            # the composable (try_) interface hands out memory as well
            + pool_suite(tier, c[:1], extra="--tries 1", fams=("compose",)) + coll_suite(tier, c[:1], extra="--tries 1", fams=("compose",)))
    ej = [J("h_lowlevel", cfg, "--mode dfs", name=f"lowlevel-dfs[{cfg}]") for cfg in c]
    return run_explore_check(prop, tier, jobs, only, enum_jobs=ej, note=NOTE_BFS +
                             "low-level allocators (heap/malloc/new/virtual memory): all sequences up to depth 5/6 over 5 request shapes and releases (stateless DFS); "
                             "M-disjoint / M-inside / M-content on every transition: each returned range is disjoint from all live ranges, lies inside an "
                             "outstanding upstream block behind the arena header, and every live byte keeps the user pattern after every operation; "
                             "M-freelist: no free-list node is part of a live allocation")


def check_C03(prop, tier, only):
    c = cfgs_for(tier)
    x = "--tries 1 --faults 1"
    jobs = (pool_suite(tier, c, extra=x, fams=("member", "traits", "compose")) + coll_suite(tier, c, extra=x, fams=("member", "compose"))
            + stack_suite(tier, c, extra=x, fams=("member",)) + iter_suite(tier, c, extra="--faults 0")
            + arena_suite(tier, c[:1], extra="--faults 1") + static_suite(tier, c))
    import grids
    ej = [J("h_lowlevel", cfg, "--mode fail", name=f"lowlevel-fail[{cfg}]") for cfg in c]
    # single-step request sweep over collections (also part of C02): a request inside the documented limits must return a
    # pointer or throw something derived from std::bad_alloc - never null, never crash (found D17/D18)
    ej += [j for j in grids.jobs_sweep(tier) if "/coll_" in j["name"] or "/pool_" in j["name"]]
    # try_ members of COMPOSITIONS (fallback / segregator over instrumented leaves, composable interface): during a try_ call no leaf's
    # throwing allocate_* is entered, the upstream does not grow, nothing is thrown, terminate is not reached
    # "the handler is called first": concurrent registrations of out_of_memory / bad_allocation_size handlers must not lose a handler
    # (all schedules, every atomic operation of src/error.cpp a scheduling point)
    j = J("h_tsafe_ll", "dbg", "--ll", name="handler-registries-threads[dbg]")
    j["only_tags"] = ["handler-registration-lost/out_of_memory", "handler-registration-lost/bad_allocation_size"]
    ej.append(j)
    for cfg in c:
        j = J("h_compose", cfg, f"--part comp --mode try --depth {5 if tier == 'quick' else 6}", name=f"compose/try-path[{cfg}]")
        j["only_tags"] = ["try-called-throwing-path", "try-terminated", "try-grew-upstream", "try-threw"]
        ej.append(j)
    return run_explore_check(prop, tier, jobs, only, enum_jobs=ej, note=NOTE_BFS +
                             "compositions: all sequences up to depth 5/6 through the composable interface of fallback/segregator compositions over instrumented leaves (try-path oracle); "
                             "low-level allocators: malloc / operator new / mmap / mprotect made to fail during every request shape (must throw the out_of_memory family "
                             "after the handler, never null); alphabet includes try_ variants, requests that exhaust fixed sources, an oversize request, and 'fail the next upstream call' "
                             "(deviation bound 1) at every reachable upstream call position; M-null/M-fail/M-try: throwing calls never return null, "
                             "exceptions are the upstream's or of the library's families with the handler called first, try_ never throws/grows; the "
                             "exploration continues after every failure so earlier allocations and later requests are checked by the C01 monitors")


def check_C04(prop, tier, only):
    c = cfgs_for(tier)
    jobs = pool_suite(tier, c, extra="--tries 1", fams=("member", "traits")) + coll_suite(tier, c, extra="--tries 1", fams=("member", "traits"))
    # composable release (try_deallocate_*): a node the pool owns must go back to its list (sizes include max_node_size itself)
    jobs += pool_suite(tier, c[:1], extra="--tries 1", fams=("compose",)) + coll_suite(tier, c[:1], extra="--tries 1", fams=("compose",))
    # capacity must survive moves as well (the free list and its counter travel with the object)
    jobs += pool_suite(tier, c[:1], extra="--moves 2") + coll_suite(tier, c[:1], extra="--moves 2")
    for j in jobs:
        j["own"] = ["M-noreport"]  # a valid release that the pool rejects as invalid is memory that does not become available again
    return run_explore_check(prop, tier, jobs, only, note=NOTE_BFS +
                             "M-capacity: free nodes + nodes held by live allocations never decreases and is constant without growth; "
                             "M-nogrow: a single node request never grows while its list holds a node; "
                             "M-freelist: nodes reachable from the list head == capacity counter, all inside owned blocks, none live")


def check_C05(prop, tier, only):
    c = cfgs_for(tier)
    aj = arena_suite(tier, c, extra="--faults 1 --moves 2") + arena_suite(tier, c, extra="--faults 2")
    for j in aj:
        j["own"] = ["M-noreport"]  # a correct block return that the source rejects as invalid is a block that is not given back
    jobs = (aj
            + pool_suite(tier, c[:2], extra="--faults 1") + coll_suite(tier, c[:1], extra="--faults 1") + stack_suite(tier, c[:2], extra="--faults 1")
            + iter_suite(tier, c[:1], extra="--moves 2"))
    import tempsrc_jobs
    return run_explore_check(prop, tier, jobs, only, enum_jobs=tempsrc_jobs.jobs_tempsrc(tier), note=NOTE_BFS +
                             "temporary stack as a block source client (h_tempsrc): all nested temporary_allocator scope sequences with shrink_to_fit requests; "
                             "virtual block source: page commit state model (a block is given back by decommitting exactly the pages its acquisition committed); "
                             "memory_arena<cached|uncached> driven directly over growing/constant/fixed/static sources wrapped in a logging BlockAllocator, plus "
                             "pools/collections/stacks/iteration allocators over the logging raw upstream; M-upstream: every block returned exactly once with the "
                             "same address/size/parameters, most recent outstanding block first (LIFO), cache used before the source, nothing outstanding after "
                             "destruction, with an upstream failure armed before every call position")


def check_C06(prop, tier, only):
    c = cfgs_for(tier)
    jobs = stack_suite(tier, c, extra="--tries 1") + stack_suite(tier, c[:1], extra="--moves 2") + growfail_jobs(tier, c[:1] if tier == "quick" else c)
    for j in jobs:
        j["own"] = ["M-upstream", "M-noreport", "M-content", "M-inside", "M-disjoint"]  # a valid unwind that is reported as invalid did not restore the state; "blocks freed by unwinding are kept for reuse until shrink_to_fit": block/cache accounting of the stack
    # the RAII form of mark/unwind: all contract-respecting sequences over two memory_stack_raii_unwind objects (stateless DFS, reference model)
    ej = [J("h_raii", cfg, "", name=f"raii-unwind[{cfg}]") for cfg in (("rwd", "dbg") if tier == "quick" else ("rel", "rwd", "dbg"))]
    return run_explore_check(prop, tier, jobs, only, enum_jobs=ej, note=NOTE_BFS +
                             "memory_stack_raii_unwind (h_raii): all sequences to depth 7/8 over allocate / create / move construct / move assign (both directions, armed and released "
                             "targets, named live sources) / release / unwind / destroy of two unwinders against a reference model (armed state, marker, top() after every implicit unwind, contents); "
                             "memory_stack with mark / unwind(j) for every valid nested j / shrink_to_fit / move; M-unwind: capacity restored, top()==marker, "
                             "markers totally ordered with consistent operators, unwind never touches the upstream, shrink_to_fit empties the cache, and a twin "
                             "comparison: probe requests on the unwound object return the same addresses and capacities as on a snapshot of the object taken when "
                             "the marker was created (skipped after shrink_to_fit)")


def check_C07(prop, tier, only):
    c = cfgs_for(tier, thorough=("rel", "rwd", "dbg", "dbg16"))
    jobs = iter_suite(tier, c) + iter_suite(tier, c[:1], extra="--moves 2")  # the active region index has to move with the object
    for j in jobs:
        j["own"] = ["M-disjoint", "M-content", "M-inside"]
    return run_explore_check(prop, tier, jobs, only, note=NOTE_BFS +
                             "iteration_allocator<N>, N=1..5, block sizes covering every residue mod N (and 1025), allocate/try_allocate/next_iteration; "
                             "M-iter: regions disjoint and inside the block at construction, allocations inside the current region, memory stays in the shadow heap "
                             "(content-checked after every operation) until next_iteration() was called N times, full region capacity after each switch")


def check_C12(prop, tier, only):
    c = cfgs_for(tier)
    x = "--moves 2"
    jobs = (pool_suite(tier, c, extra=x, fams=("member",)) + coll_suite(tier, c, extra=x) + stack_suite(tier, c, extra=x)
            + iter_suite(tier, c[:2], extra=x) + arena_suite(tier, c, extra=x) + static_suite(tier, c[:1], extra=x))
    # moves between DIFFERENTLY shaped collections (the second object has another max_node_size: every member that describes the
    # array of free lists has to move, not only the pointer)
    for cfg in (c[:1] if tier == "quick" else c):
        # (at least two buckets on both sides: a single-bucket collection is outside the documented block size requirement in fence configurations)
        for a_, b_ in ((32, 16), (16, 32)):
            jobs.append(J("h_coll", cfg, f"--type array --buckets log2 --src constant --maxns {a_} --maxns2 {b_} --bs 640 --sizes 8,32 --L 2 --B 2 --arena 4096 --moves 2",
                          name=f"coll/array/log2/constant[{cfg}] maxns {a_} vs {b_} --moves 2", need=("moveassigned_while_nonempty", "swapped"), moves=True))
    ej = []
    for cfg in ("rwd", "dbg"):
        j = J("h_deeptrack", cfg, "", name=f"deeptrack[{cfg}]")
        j["only_tags"] = ["block-callback-at-moved-from-tracker", "block-callback-at-destroyed-tracker", "block-callback-at-wrong-tracker", "block-callback-at-unknown-tracker",
                          "destroyed-tracker-storage-written", "tracker-state-not-transferred", "block-callback-missing", "moved-allocator-aborted", "moved-allocator-crashed",
                          "moved-allocator-hung"]
        ej.append(j)
    return run_explore_check(prop, tier, jobs, only, enum_jobs=ej, note=NOTE_BFS +
                             "deeply tracked allocators (h_deeptrack): all histories of grow / unwind+shrink / move construct / move assign / swap / destroy (storage poisoned) / create over three "
                             "slots: every block-level tracker callback arrives at the current owner's tracker; "
                             "two object slots; alphabet adds construct / move-construct / move-assign (onto empty, non-empty and moved-from targets) / swap / "
                             "destroy (also of moved-from objects) at every reachable state, up to 2 moves per history; all memory-safety and upstream monitors "
                             "continue across the move with ownership transferred in the model; the storage of destroyed objects must stay untouched")


def check_C15(prop, tier, only):
    c = [x for x in cfgs_for(tier) if x != "rel"] + (["rel"] if tier != "quick" else [])
    jobs = (pool_suite(tier, c, fams=("traits",)) + pool_suite(tier, c[:1], extra="--moves 2", fams=("traits",)) + coll_suite(tier, c, fams=("traits",))
            + stack_suite(tier, c, fams=("traits",)) + stack_suite(tier, c[:1], extra="--moves 2", fams=("traits",))
            + coll_suite(tier, c[:1], extra="--moves 2", fams=("traits",)))
    ej = [J("h_lowlevel", cfg, "--mode leak", name=f"lowlevel-leak[{cfg}]") for cfg in c]
    # the process-wide balance of the stateless allocators is shared by all threads: every schedule of two/three threads that
    # allocate and release through the same allocator type must end with the balance it started with (scheduler + atomic shim of C13)
    for cfg in (("dbg",) if tier == "quick" else ("dbg", "rwd")):
        j = J("h_tsafe_ll", cfg, "--ll", name=f"lowlevel-leak-balance-threads[{cfg}]")
        j["only_tags"] = ["leak-balance", "handler-registration-lost/leak"]  # the other oracles of that harness (shared new-handler, locking) speak about C13
        ej.append(j)
    return run_explore_check(prop, tier, jobs, only, enum_jobs=ej, note=NOTE_BFS +
                             "shared leak balance under threads: all schedules (preemption-bounded, every atomic operation of the low-level allocator TUs a scheduling point) of "
                             "threads using one stateless allocator type; "
                             "stateless low-level allocators: every multiset of <= 2/3 allocations x every released subset runs in a forked child that exits normally, "
                             "the leak handler must fire once per allocator with the exact net (incl. the fences the allocator obtained) or not at all; " +
                             "allocator_traits family only; ledger net = sum of traits allocations - deallocations per object identity as moved; M-leak: on "
                             "destruction exactly one handler call with the exact net and the allocator's address if net != 0, none if 0 (never in rel)")


def check_C18_explore_jobs(tier):
    c = cfgs_for(tier)
    return (pool_suite(tier, c, extra="--tries 1", fams=("member", "traits")) + coll_suite(tier, c, fams=("member", "traits"))
            + stack_suite(tier, c, extra="--tries 1") + iter_suite(tier, c[:2]) + arena_suite(tier, c[:1])
            + growfail_jobs(tier, c[:1] if tier == "quick" else c, twin=0)
            # the figures of a moved / swapped object describe the memory it took over
            + pool_suite(tier, c[:1], extra="--moves 2") + stack_suite(tier, c[:1], extra="--moves 2") + coll_suite(tier, c[:1], extra="--moves 2")
            # the composable interface moves the counters too (a failed try_ may only move the rest of the block into the pool)
            + coll_suite(tier, c[:1], extra="--tries 1", fams=("compose",))
            + [J("h_coll", cfg, "--type node --buckets log2 --src fixed --fam compose --tryrel 1 --maxns 64 --bs 528 --sizes 64,32 --L 5 --B 1 --arena 2048",
                 name=f"coll/node/log2/fixed[{cfg}] compose, rest of the block smaller than a node", need=("try_returned_null",)) for cfg in c[:2]])


def check_C16(prop, tier, only):
    q = tier == "quick"
    jobs = []
    x = "--bad 1"
    # positive part: every deliberately invalid call at every reachable state; negative part: M-noreport on the same valid histories
    for cfg in (["rwd", "dbg", "chk"]):
        jobs += [
            J("h_pool", cfg, f"--type array --src constant --ns 16 --bs 80 --L {4 if q else 5} --B 2 --arrays 2 --arena 1024 {x}", name=f"pool/array/constant[{cfg}] bad", need=("bad_call_reported",) if cfg != "rwd" else ()),
            J("h_pool", cfg, f"--type node --src constant --ns 16 --bs 80 --L {4 if q else 5} --B 2 --arena 1024 {x}", name=f"pool/node/constant[{cfg}] bad", need=("bad_call_reported",) if cfg != "rwd" else ()),
            J("h_pool", cfg, f"--type small --src fixed --ns 4 --bs 1088 --L {3 if q else 4} --B 2 --arena 4096 {x}", name=f"pool/small/fixed[{cfg}] bad 1 chunk", need=("bad_call_reported",)),
            J("h_pool", cfg, f"--type small --src constant --ns 1 --bs 304 --L 2 --B 2 --bulk 254 --arena 4096 --snap 1 --max_states 40000 {x}", name=f"pool/small/constant[{cfg}] bad 2 chunks", need=("bad_call_reported",)),
            J("h_coll", cfg, f"--type array --buckets log2 --src fixed --maxns 32 --bs 288 --sizes 16,8 --arrays 2x16 --L {3 if q else 4} --B 2 --arena 2048 {x}", name=f"coll/array/log2/fixed[{cfg}] bad", need=("bad_call_reported",) if cfg != "rwd" else ()),
            J("h_stack", cfg, f"--src constant --bs 64 --reqs 40x1,8x8 --L {3 if q else 4} --B 3 --arena 1024 --markers 2 {x}", name=f"stack/constant[{cfg}] bad", need=("bad_call_reported",) if cfg != "dbg" else ("bad_call_aborted",)),
            J("h_stack", cfg, f"--src growing --bs 64 --reqs 8x8,24x1 --L 3 --B 3 --arena 1024 --markers 2 {x}", name=f"stack/growing[{cfg}] bad", need=()),
        ]
    # valid histories only (no false reports), incl. the configuration without any check
    c = ["rwd", "dbg"] if q else ["rel", "rwd", "dbg"]
    jobs += pool_suite("quick", c, extra="--tries 1") + coll_suite("quick", c) + stack_suite("quick", c) + iter_suite("quick", c[:1]) + arena_suite("quick", c[-1:])
    # valid histories with moves / swaps: blocks (and cached blocks) must go back to the source they came from, a LIFO-only source reports anything else
    jobs += arena_suite("quick", c[-1:], extra="--moves 2") + stack_suite("quick", c[-1:], extra="--moves 2")
    # ... and after a failed acquisition (upstream / page commit failure armed at every call position) valid releases are still accepted
    jobs += arena_suite("quick", c[-1:], extra="--faults 1")
    enum_jobs = [J("h_badblock", cfg, "", name=f"badblock[{cfg}]") for cfg in (["rwd", "dbg", "chk"] + ([] if q else ["rel"]))]
    # reports go to the invalid-pointer handler that is installed: concurrent registrations must not lose a handler
    j = J("h_tsafe_ll", "dbg", "--ll", name="handler-registries-threads[dbg]")
    j["only_tags"] = ["handler-registration-lost/invalid_pointer"]
    enum_jobs.append(j)
    return run_explore_check(prop, tier, jobs, only, enum_jobs=enum_jobs, note=NOTE_BFS +
                             "positive part: at every state reached, every applicable invalid call (release of an already free node at list position 0..3 / last / middle; "
                             "for small pools a pointer into a chunk header, above all blocks, and at every byte offset inside a node; unwind to a stale marker above the top) "
                             "is executed under containment: it must end in the invalid-pointer handler or an abort, with arena memory and public counters still unchanged "
                             "when the handler runs; LIFO block sources: all sequences of allocate/return (any block ever obtained) up to depth 5/7 on static, fixed and "
                             "virtual block allocators. Negative part: M-noreport on all valid histories of the suites in every configuration")


def check_C18(prop, tier, only):
    import grids
    jobs = check_C18_explore_jobs(tier)
    for j in jobs:
        if j["h"] in ("h_pool", "h_coll"):
            # "capacity_left() ... are truthful": the counter must equal the nodes that can really be reached from the list head
            j["own"] = ["M-freelist"]
        if j["h"] in ("h_stack", "h_iter", "h_static"):
            # bump allocators: memory handed out beyond the block / region is capacity that was never there
            j["own"] = ["M-inside"]
    c = cfgs_for(tier)
    ej = grids.jobs_minblock(tier, strict_next=True) + [J("h_nextcap", cfg, "", name=f"nextcap[{cfg}]") for cfg in c]
    # "a request above the reported maxima never succeeds": the single-step request sweep on the stack-like allocators
    # (every size x alignment at the end of a block and right after a growth)
    ej += [j for j in grids.jobs_sweep(tier) if "/stack" in j["name"] or "/static" in j["name"] or "/iter" in j["name"]]
    return run_explore_check(prop, tier, jobs, only, enum_jobs=ej, note=NOTE_BFS +
                             "next_capacity() sweep: every pool type x node size x EVERY block size of a range: the announced next_capacity() equals the capacity a growth adds; " +
                             "M-counters: capacity_left / pool_capacity_left change by exactly the nodes or bytes an operation takes or returns, next_capacity equals the size of "
                             "the next upstream request, M-maxima: no request above max_node_size/max_array_size/max_alignment succeeds; plus the exhaustive "
                             "min_block_size grid (node size x node count x pool type; byte sizes for stacks)")


def check_C02(prop, tier, only):
    import grids
    c = cfgs_for(tier, thorough=("rel", "rwd", "dbg", "dbg16"))
    jobs = (pool_suite(tier, c, extra="--tries 1", fams=("member", "traits")) + coll_suite(tier, c, fams=("member", "traits"))
            + stack_suite(tier, c, extra="--tries 1") + iter_suite(tier, c[:2]) + static_suite(tier, c))
    ej = grids.jobs_sweep(tier)
    # adapters must honour the requested alignment too: aligned_allocator compositions, all four allocation members, min x requested alignment
    for cfg in ("rwd", "dbg"):
        j = J("h_alignad", cfg, "", name=f"alignad[{cfg}]")
        j["only_tags"] = ["returned-pointer-underaligned"]
        ej.append(j)
    return run_explore_check(prop, tier, jobs, only, enum_jobs=ej, note=NOTE_BFS +
                             "aligned_allocator compositions (h_alignad): every allocation member x minimum 1..64 x requested alignment 1..64 x counts x sizes x bump offsets over a leaf that never over-aligns; "
                             "M-align / M-inside / M-disjoint on every transition (the harness writes all count*size bytes of every returned range and re-reads every live "
                             "range after every operation); plus the exhaustive single-step request sweep over sizes, counts, alignments and three canonical positions")


CHECKS["C16"] = check_C16
CHECKS["C18"] = check_C18
CHECKS["C02"] = check_C02
CHECKS["C01"] = check_C01
CHECKS["C03"] = check_C03
CHECKS["C04"] = check_C04
CHECKS["C05"] = check_C05
CHECKS["C06"] = check_C06
CHECKS["C07"] = check_C07
CHECKS["C12"] = check_C12
CHECKS["C15"] = check_C15


# ------------------------------------------------------------------ enumeration-style checks
def _build_enum_harness(h, cfg, harness_kw=None):
    """harnesses that are not a single TU linked against the library have their own build function"""
    if h == "h_tsafe_ll":
        import check_C13
        return check_C13._build_ll(cfg)
    return vlib.build_harness(f"harness/{h}.cpp", cfg, **(harness_kw or HARNESS_KW.get(h, {})))


def _run_enum(prop, tier, jobs, budget=None, harness_kw=None):
    """runs enumeration harness jobs; returns (coverage dict, violations [(replay path, rec)], known lines, errors)"""
    budget = budget or (150 if tier == "quick" else 1500)
    import concurrent.futures as cf
    exes = {}
    keys = sorted({(j["h"], j["cfg"]) for j in jobs})
    with cf.ThreadPoolExecutor(8) as ex:
        futs = {ex.submit(_build_enum_harness, h, cfg, harness_kw): (h, cfg) for (h, cfg) in keys}
        for f in cf.as_completed(futs):
            exes[futs[f]] = f.result()
    argv_jobs = [(j["name"], [exes[(j["h"], j["cfg"])]] + shlex.split(j["args"]) + ["--tier", tier]) for j in jobs]
    results = vlib.run_jobs(argv_jobs, timeout=budget + 300)
    ev = dn = excl = 0
    rules, samples, errors, viol, known = [], [], [], [], []
    exhaustive = True
    per = []
    for j, (label, rc, js, txt) in zip(jobs, results):
        if js is None:
            errors.append(f"{label}: harness produced no result (rc={rc}): {txt[-400:]}")
            continue
        ev += js.get("evaluations", 0)
        dn += js.get("distinct_nontrivial", 0)
        excl += js.get("excluded", 0)
        exhaustive = exhaustive and bool(js.get("exhaustive", False))
        if js.get("rule") and js["rule"] not in rules:
            rules.append(js["rule"])
        for s_ in js.get("samples", [])[:3]:
            if len(samples) < 12:
                samples.append({"config": label, "case": s_})
        per.append({"name": label, "evaluations": js.get("evaluations", 0), "distinct_nontrivial": js.get("distinct_nontrivial", 0),
                    "exhaustive": js.get("exhaustive", False), "wall_s": js.get("wall_s", 0), "extra": js.get("extra", {})})
        for e in js.get("harness_errors", []):
            errors.append(f"{label}: {e}")
        seen_fp = set()
        for v in js.get("violations", []):
            if j.get("only_tags") and v["tag"] not in j["only_tags"]:
                vlib.log(f"note: {label}: [{v['tag']}] belongs to another property: {v['detail'][:200]}")
                continue
            fp = f"{j['h']}|{v['tag']}"
            rec = {"property": prop, "kind": "enum", "harness": j["h"], "cfg": j["cfg"], "args": j["args"], "tag": v["tag"],
                   "detail": v["detail"], "input": v.get("input"), "fingerprint": fp}
            kf = vlib.match_known(prop, fp)
            if kf:
                known.append(f"KNOWN-FINDING: property={prop} {kf['what']}")
            elif (fp, j["cfg"]) not in seen_fp:
                seen_fp.add((fp, j["cfg"]))
                viol.append((vlib.write_replay(prop, rec), rec))
    cov = {"evaluations": ev, "distinct_nontrivial": dn, "rule": " || ".join(rules), "samples": samples or [{"note": "none"}],
           "exhaustive": bool(exhaustive and not errors), "excluded_by_rule": excl, "per_configuration": per}
    return cov, viol, known, errors


def run_enum_check(prop, tier, jobs, level="exploration", only=None, note="", assumptions=None, budget=None,
                   harness_kw=None):
    """jobs: list of J(); each harness run enumerates a finite input/fault domain and writes
    {"evaluations","distinct_nontrivial","rule","samples","exhaustive","excluded","violations":[{"tag","detail","input"}]}.
    A violation's "input" (any JSON value) is what `--replay '<json>'` of the same harness takes."""
    t0 = time.time()
    if only:
        jobs = [j for j in jobs if only in j["name"]]
    cov, viol, known, errors = _run_enum(prop, tier, jobs, budget, harness_kw)
    wall = time.time() - t0
    cov["rule"] = cov["rule"] or note
    cov.update({"harness_errors": errors[:20], "known_findings_hit": sorted(set(known)), "explanation": note})
    vlib.write_evidence(prop, tier, level, cov, wall, len(viol), assumptions=assumptions)
    for l in sorted(set(known)):
        print(l)
    for e in errors[:10]:
        log("HARNESS ERROR: " + e)
    log(f"{prop} {tier}: {len(cov['per_configuration'])} runs, {cov['evaluations']} evaluations, {cov['distinct_nontrivial']} distinct non-trivial, {len(viol)} violation(s), {wall:.1f}s")
    return _report_enum_viol(prop, viol, errors)


def _report_enum_viol(prop, viol, errors):
    if viol:
        for rp, rec in viol:
            print(f"VIOLATION property={prop} replay={rp}")
            log(f"  [{rec['tag']}] {rec['detail']}\n  config: {rec['harness']}[{rec['cfg']}] {rec['args']}\n  input: {json.dumps(rec['input'])[:400]}")
        return 1
    return 3 if errors else 0


def replay_enum(rec):
    exe = _build_enum_harness(rec["harness"], rec["cfg"])
    argv = [exe] + shlex.split(rec["args"]) + ["--replay", json.dumps(rec["input"])]
    print("replaying:", " ".join(shlex.quote(a) for a in argv))
    print("expected :", rec["tag"], "-", rec["detail"])
    return subprocess.run(argv).returncode


# ------------------------------------------------------------------ per-property modules
def _load_modules():
    import glob
    import importlib
    here = os.path.dirname(os.path.abspath(__file__))
    for f in sorted(glob.glob(os.path.join(here, "check_C*.py"))):
        m = importlib.import_module(os.path.basename(f)[:-3])
        if hasattr(m, "register"):
            m.register(CHECKS)


_load_modules()
