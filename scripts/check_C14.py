"""C14 - temporary allocations end with their scope; each live thread has its own temporary stack.

Deciding step: harness/h_temp.cpp
  (a) concurrent part, configuration rwd (temporary stack mode 2): every schedule with at most B preemptions of every
      program of 2..4 real threads x <= L steps of {I+ I- G S} x main thread {never / before / after}, scheduling point
      before EVERY atomic operation of src/temporary_allocator.cpp.  No hook in /repo: that one source file is compiled
      from the working tree into its own object with `-include engine/atomic_shim.hpp` and linked in front of libfm.a.
      Every (program, schedule) runs in a forked child that ends through exit(), so thread exit and program exit
      (thread_local / static destructors, nifty counter) are part of every execution.
  (b) sequential part, configurations rwd (mode 2) and tm1 (mode 1): every valid operation sequence up to depth D of
      {I+ I- G open close alloc x3} on one thread.
"""
import hashlib
import json
import os
import shlex
import subprocess
import sys
import time

H = "h_temp"
WRAPS = ("-Wl,--wrap=malloc", "-Wl,--wrap=free")
KNOWN_TAGS = ("stack-not-released", "no-reuse", "shared-stack", "exit-leak")


def build_shim_object(cfg):
    """src/temporary_allocator.cpp of the working tree, compiled with the <atomic> shim force-included"""
    import vlib
    shim = os.path.join(vlib.VERIF, "engine", "atomic_shim.hpp")
    src = os.path.join(vlib.REPO, "src", "temporary_allocator.cpp")
    flags = ["-std=c++17", "-O1", "-g", "-fPIC", "-w"] + vlib.BASE_DEFS + ["-include", shim]
    flags += vlib.inc_flags(cfg, os.path.join(vlib.VERIF, "engine", "stub"))
    key = hashlib.sha256((vlib.repo_hash() + cfg + " ".join(flags) + open(shim).read()).encode()).hexdigest()[:16]
    base = os.path.join(vlib.BUILD, "obj", "temp_shim-" + cfg)
    obj = os.path.join(base, key, "temporary_allocator.shim.o")
    if os.path.exists(obj):
        return obj
    vlib._prune(base, key)
    os.makedirs(os.path.dirname(obj), exist_ok=True)
    r = vlib.sh([vlib.CXX] + flags + ["-c", src, "-o", obj + ".tmp"])
    if r.returncode != 0:
        raise vlib.BuildError(f"src/temporary_allocator.cpp does not compile in configuration {cfg} with the <atomic> shim "
                              f"(engine/atomic_shim.hpp) force-included:\n{r.stdout[-3000:]}")
    os.rename(obj + ".tmp", obj)
    return obj


def build(cfg):
    """harness for cfg; mode 2 configurations get the shimmed library TU in front of libfm.a"""
    import vlib
    vlib.build_lib(cfg)  # BuildError here = the tree does not compile in this configuration (D15: tm1)
    extra = list(WRAPS)
    if vlib.CONFIGS[cfg][6] >= 2:
        extra.append(build_shim_object(cfg))  # an object file among the flags: linked before the harness TU and libfm.a
    return vlib.build_harness(f"harness/{H}.cpp", cfg, extra=tuple(extra))


def _jobs(tier):
    import checks
    J = checks.J
    jobs = []

    def conc(threads, length, bound, mains, parts):
        for k in range(parts):
            jobs.append(J(H, "rwd", f"--conc --threads {threads} --len {length} --bound {bound} --mains {mains} --part {k}/{parts}",
                          name=f"conc/{threads}thr/len{length}/b{bound}/main{mains}[rwd] part {k}/{parts}"))

    def seq(cfg, depth, fresh, parts):
        for k in range(parts):
            jobs.append(J(H, cfg, f"--seq --depth {depth} --fresh_depth {fresh} --part {k}/{parts}",
                          name=f"seq/d{depth}/fresh{fresh}[{cfg}] part {k}/{parts}"))

    if tier == "quick":
        conc(3, 2, 2, "N", 16)      # ~340 000 executions
        conc(2, 3, 2, "NBA", 10)    # ~190 000 executions
        seq("rwd", 7, 5, 3)
        seq("tm1", 7, 5, 3)
    else:
        conc(2, 4, 3, "NBA", 32)    # ~7.6 M executions
        conc(3, 2, 3, "NB", 32)     # ~5 M
        conc(3, 3, 1, "N", 16)      # ~1.8 M
        conc(4, 2, 1, "N", 16)      # ~1.2 M
        seq("rwd", 8, 6, 8)
        seq("tm1", 8, 6, 8)
    return jobs


def _replay_case(cfg, js):
    exe = build(cfg)
    return subprocess.run([exe, "--replay", js]).returncode


def check(prop, tier, only):
    import concurrent.futures as cf
    import vlib
    from vlib import log
    t0 = time.time()
    jobs = _jobs(tier)
    if only:
        jobs = [j for j in jobs if only in j["name"]]
    cfgs = sorted({j["cfg"] for j in jobs})
    exes = {}
    with cf.ThreadPoolExecutor(4) as ex:
        futs = {ex.submit(build, cfg): cfg for cfg in cfgs}
        for f in cf.as_completed(futs):
            exes[futs[f]] = f.result()  # BuildError propagates: ./check turns it into a VIOLATION (mode 1 must compile)
    tolerate = [t for t in KNOWN_TAGS if vlib.match_known(prop, f"{H}|{t}")]
    # no wall-clock limit decides anything: the harness bounds every child by CPU time / blocked-state detection and itself by
    # a CPU-time budget; the limit given to run_jobs only ends a run that is stuck for hours
    argv_jobs = []
    for j in jobs:
        argv = [exes[j["cfg"]]] + shlex.split(j["args"]) + ["--tier", tier]
        if tolerate:
            argv += ["--tolerate", ",".join(tolerate)]
        argv_jobs.append((j["name"], argv))
    results = vlib.run_jobs(argv_jobs, timeout=6 * 3600)

    states = trans = traces = 0
    per, samples, errors, known = [], [], [], []
    viol = {}
    exhaustive = True
    shapes = {}
    counters = {"conc": {}, "seq-rwd": {}, "seq-tm1": {}}
    timeouts = {"timeout_candidates": 0, "timeouts_not_reproduced": 0}
    for j, (label, rc, js, txt) in zip(jobs, results):
        if js is None:
            errors.append(f"{label}: harness produced no result (rc={rc}): {txt[-400:]}")
            continue
        e = js.get("extra", {})
        for he in js.get("harness_errors", []):
            errors.append(f"{label}: {he}")
        states += e.get("states", 0)
        trans += e.get("transitions", 0)
        traces += e.get("traces_validated_against_impl", 0)
        exhaustive = exhaustive and bool(js.get("exhaustive", False))
        for k in timeouts:
            timeouts[k] += e.get(k, 0)
        conc = e.get("part") == "conc"
        ck = "conc" if conc else "seq-" + j["cfg"]
        for k, v in e.get("counters", {}).items():
            if k.startswith("max_"):
                counters[ck][k] = max(counters[ck].get(k, 0), v)
            else:
                counters[ck][k] = counters[ck].get(k, 0) + v
        key = label.split(" part ")[0]
        if conc:
            sh = shapes.setdefault(key, {"threads": e.get("threads"), "max_steps_per_thread": e.get("max_steps_per_thread"),
                                         "main_modes": e.get("main_modes"), "preemption_bound": e.get("preemption_bound"),
                                         "programs": 0, "executions": 0, "programs_with_all_schedules_enumerated": 0,
                                         "bound_completed": None, "alternatives_pruned_by_bound": 0, "executions_by_preemptions": [],
                                         "max_executions_per_program": 0, "min_executions_per_program": None, "max_schedule_length": 0})
            sh["programs"] += e.get("programs", 0)
            sh["executions"] += e.get("traces_validated_against_impl", 0)
            sh["programs_with_all_schedules_enumerated"] += e.get("programs_with_all_schedules_enumerated", 0)
            sh["alternatives_pruned_by_bound"] += e.get("alternatives_pruned_by_bound", 0)
            bc = e.get("preemption_bound_completed", -1)
            sh["bound_completed"] = bc if sh["bound_completed"] is None else min(sh["bound_completed"], bc)
            sh["max_executions_per_program"] = max(sh["max_executions_per_program"], e.get("max_executions_per_program", 0))
            mn = e.get("min_executions_per_program", 0)
            sh["min_executions_per_program"] = mn if sh["min_executions_per_program"] is None else min(sh["min_executions_per_program"], mn)
            sh["max_schedule_length"] = max(sh["max_schedule_length"], e.get("max_schedule_length", 0))
            cur = sh["executions_by_preemptions"]
            for i, v in enumerate(e.get("executions_by_preemptions", [])):
                if i < len(cur):
                    cur[i] += v
                else:
                    cur.append(v)
        else:
            sh = shapes.setdefault(key, {"temporary_stack_mode": e.get("temporary_stack_mode"), "depth": e.get("depth"),
                                         "fresh_process_depth": e.get("fresh_depth"), "sequences": 0, "fresh_process_runs": 0,
                                         "batch_processes": 0})
            sh["sequences"] += e.get("sequences", 0)
            sh["fresh_process_runs"] += e.get("fresh_process_runs", 0)
            sh["batch_processes"] += e.get("batch_processes", 0)
        per.append({"name": label, "evaluations": js.get("evaluations", 0), "programs_or_sequences": e.get("programs", e.get("sequences", 0)),
                    "states": e.get("states", 0), "transitions": e.get("transitions", 0), "exhaustive": js.get("exhaustive"),
                    "executions_per_s": e.get("executions_per_s"), "largest_programs": e.get("largest_programs"), "wall_s": js.get("wall_s")})
        for s_ in js.get("samples", [])[:2]:
            if len(samples) < 12:
                samples.append({"config": label, "case": s_})
        for v in js.get("violations", []):
            tag = v["tag"]
            fp = f"{H}|{tag}"
            kf = vlib.match_known(prop, fp)
            if kf:
                known.append(f"KNOWN-FINDING: property={prop} {kf['what']}")
                continue
            if tag in viol:
                if label not in viol[tag]["also_in"]:
                    viol[tag]["also_in"].append(label)
                continue
            arg = json.dumps(v["input"])
            viol[tag] = {"property": prop, "kind": "command", "tag": tag, "detail": v["detail"], "input": v["input"], "cfg": j["cfg"],
                         "fingerprint": fp, "argv": [sys.executable, "scripts/check_C14.py", "--replay-case", j["cfg"], arg], "also_in": []}
    # vacuity
    if not only and not viol:
        c = counters["conc"]
        for k in ("adoptions_of_an_existing_stack", "creations_of_a_new_stack", "acquisitions_overlapping_another",
                  "reacquisitions_after_initializer_destroyed", "scopes_unwinding_over_a_block_boundary",
                  "releases_checked_of_a_stack_that_had_grown"):
            if c.get(k, 0) == 0:
                errors.append(f"vacuous: concurrent part never saw '{k}'")
        if c.get("atomic_operations_as_scheduling_points", 0) == 0:
            errors.append("vacuous: the <atomic> shim produced no scheduling point")
        if c.get("max_stacks_in_list", 0) < 2:
            errors.append("vacuous: no execution with two stacks in the list")
        if counters["seq-rwd"].get("releases_checked_of_a_stack_that_had_grown", 0) == 0:
            errors.append("vacuous: sequential part seq-rwd never released a stack that had grown")
        for ck in ("seq-rwd", "seq-tm1"):
            c = counters[ck]
            for k in ("scopes_in_which_the_stack_grew_at_least_twice", "reacquisitions_after_initializer_destroyed",
                      "bad_allocation_size_exceptions", "upstream_failures_injected_and_hit", "acquisitions_after_a_failed_one",
                      "scopes_closed_with_a_shrink_to_fit_request", "enclosing_allocator_checked_active_after_inner_close"):
                if c.get(k, 0) == 0:
                    errors.append(f"vacuous: sequential part {ck} never saw '{k}'")
    wall = time.time() - t0
    bounds = {}
    for k, v in shapes.items():
        if "preemption_bound" in v:
            bounds[k] = (f"<= {v['bound_completed']} preemptions completed"
                         + ("; no alternative was cut by the bound: every schedule enumerated" if v["alternatives_pruned_by_bound"] == 0 else
                            f"; {v['programs_with_all_schedules_enumerated']} of {v['programs']} programs needed no bound"))
    cov = {
        "states": states, "transitions": trans, "traces_validated_against_impl": traces,
        "samples": samples or [{"note": "none"}],
        "exhaustive": bool(exhaustive and not errors),
        "preemption_bound_completed": bounds,
        "per_shape": shapes,
        "event_counters": counters,
        "timeout_candidates": timeouts["timeout_candidates"],
        "timeouts_not_reproduced": timeouts["timeouts_not_reproduced"],
        "per_configuration": per,
        "harness_errors": errors[:20],
        "known_findings_hit": sorted(set(known)),
        "explanation": "concurrent part: states = distinct canonical hashes (per-thread step and scheduling-point index, list as sequence of in_use flags by "
                       "list position, each thread's current stack as list position; no addresses) seen at scheduling decisions, summed over programs; "
                       "transitions = scheduling decisions executed; traces = complete executions, each in its own forked process on the real code "
                       "including thread exit and program exit. Oracles: no stack is the current stack of two live threads (checked before every atomic "
                       "operation and after every step); stack top/marker/active-allocator restored by every ~temporary_allocator, allocations inside the "
                       "stack's outstanding blocks; at the store that marks a stack free its arena caches no block (released only after it was cleared); a new stack object is only allocated when fewer stacks were free than acquisitions overlapped; all "
                       "stacks free once all threads finished; heap balance zero and no leak-handler / invalid-pointer-handler call at program exit; no "
                       "abort, crash, deadlock, livelock. Sequential part: states = distinct (model, block index, top offset, cache) tuples; every "
                       "sequence on the real code in configurations rwd (mode 2) and tm1 (mode 1).",
    }
    recs = list(viol.values())
    vlib.write_evidence(prop, tier, "model_checking", cov, wall, len(recs), assumptions=[
        "sequentially consistent interleavings at the granularity of the library's atomic operations (every std::atomic operation of "
        "src/temporary_allocator.cpp is a scheduling point; plain accesses between two atomic operations of a thread execute atomically)",
        "2 and 3 threads (thorough: 4 with preemption bound 1), thread programs of at most 3 (thorough 4) steps; the main thread uses a "
        "temporary allocator never / before the threads start / after they have finished",
        "g++ 12, x86-64: compare_exchange_weak does not fail spuriously",
        "the concurrent part runs in temporary stack mode 2 only (mode 1 shares nothing between threads); the sequential part runs in modes 1 and 2",
    ])
    for l in sorted(set(known)):
        print(l)
    for e in errors[:10]:
        log("HARNESS ERROR: " + e)
    log(f"{prop} {tier}: {len(per)} runs, {traces} executions on the real code, {states} states, {trans} transitions, "
        f"{len(recs)} violation(s), {wall:.1f}s")
    if recs:
        for rec in recs:
            rp = vlib.write_replay(prop, rec)
            print(f"VIOLATION property={prop} replay={rp}")
            log(f"  [{rec['tag']}] {rec['detail']}\n  input: {json.dumps(rec['input'])[:400]}")
        return 1
    return 3 if errors else 0


def register(CHECKS):
    CHECKS["C14"] = check


if __name__ == "__main__":
    sys.path.insert(0, os.path.dirname(os.path.abspath(__file__)))
    if len(sys.argv) >= 4 and sys.argv[1] == "--replay-case":
        sys.exit(_replay_case(sys.argv[2], sys.argv[3]))
    print("usage: check_C14.py --replay-case <cfg> '<json>'")
    sys.exit(2)
