#!/usr/bin/env python3
"""Confirms the seeded changes delivered by the mutation sub-agents (one scratch worktree per property under
/tmp/mut/Cxx): patch applies to /repo's HEAD, library + tests build, the repository's suite stays green with the
change, the demonstration fails with the change and passes without it. Confirmed seeds are copied to
/verif/seeded/<id>/ with a meta.json. Usage: verify_seeds.py [C01 C02 ...]"""
import concurrent.futures as cf
import json
import os
import shutil
import subprocess
import sys

MUT = os.environ.get("SEED_MUT", "/tmp/mut")
OUT = "/verif/seeded"
# second wave: out/A, out/B are stored as <id>-C, <id>-D
NAMES = {"A": "A", "B": "B"} if not os.environ.get("SEED_WAVE2") else {"A": "C", "B": "D"}
if os.environ.get("SEED_NAMES"):  # e.g. SEED_NAMES=E,F for a third wave
    NAMES = dict(zip("AB", os.environ["SEED_NAMES"].split(",")))


def sh(cmd, cwd=None, timeout=900):
    try:
        r = subprocess.run(cmd, shell=True, cwd=cwd, stdout=subprocess.PIPE, stderr=subprocess.STDOUT, text=True, timeout=timeout)
        return r.returncode, r.stdout
    except subprocess.TimeoutExpired:
        return -999, "timeout"


def build_and_test(wt):
    if not os.path.exists(os.path.join(wt, "_build", "build.ninja")):
        rc, out = sh("cmake -G Ninja -S . -B _build -DFETCHCONTENT_TRY_FIND_PACKAGE_MODE=ALWAYS -DCMAKE_BUILD_TYPE=RelWithDebInfo", wt)
        if rc:
            return False, "configure failed: " + out[-500:]
    rc, out = sh("cmake --build _build", wt)
    if rc:
        return False, "build failed: " + out[-800:]
    rc, out = sh("ctest --test-dir _build -j8 --timeout 900", wt)
    return rc == 0, out[-300:]


def run_demo(wt, d):
    script = os.path.join(d, "run_demo.sh")
    if os.path.exists(script):
        rc, out = sh(f"bash {script}", wt, timeout=1200)
        import re
        m = re.findall(r"exit (?:code|status): *(-?\d+)", out)  # several scripts print the demo's exit code and return 0
        if rc == 0 and m:
            rc = int(m[-1])
        return rc, out
    return sh(f"g++ -std=c++17 -g -I include -I _build/src -I include/foonathan/memory {d}/demo.cpp _build/src/libfoonathan_memory-*.a -pthread -o {d}/demo.bin && {d}/demo.bin", wt)


def verify(pid):
    wt = os.path.join(MUT, pid)
    head = subprocess.run(["git", "-C", "/repo", "rev-parse", "HEAD"], capture_output=True, text=True).stdout.strip()
    res = []
    sh("git checkout -q -- . ; git checkout -q --detach " + head, wt)
    for v in ("A", "B"):
        d = os.path.join(wt, "out", v)
        patch = os.path.join(d, "patch.diff")
        if not os.path.exists(patch):
            continue
        vn = NAMES[v]
        meta = {"id": f"{pid}-{vn}", "property": pid, "repo_head": head}
        rc, out = sh(f"git apply --check {patch}", wt)
        if rc:
            meta["status"] = "patch does not apply to current HEAD: " + out[-300:]
            res.append(meta)
            continue
        # without the change
        ok, out = build_and_test(wt)
        rc0, demo0 = run_demo(wt, d)
        sh("git checkout -q -- .", wt)
        # with the change
        sh(f"git apply {patch}", wt)
        ok1, out1 = build_and_test(wt)
        rc1, demo1 = run_demo(wt, d)
        sh("git checkout -q -- .", wt)
        meta.update({"suite_without_change": ok, "demo_exit_without_change": rc0, "suite_with_change": ok1, "demo_exit_with_change": rc1,
                     "demo_tail_with_change": demo1[-600:], "demo_tail_without_change": demo0[-300:]})
        confirmed = ok and ok1 and rc0 == 0 and rc1 != 0
        meta["status"] = "confirmed" if confirmed else "NOT confirmed"
        if confirmed:
            dst = os.path.join(OUT, f"{pid}-{vn}")
            os.makedirs(dst, exist_ok=True)
            for f in ("patch.diff", "demo.cpp", "run_demo.sh", "README.md"):
                if os.path.exists(os.path.join(d, f)):
                    shutil.copy(os.path.join(d, f), dst)
            readme = open(os.path.join(d, "README.md")).read() if os.path.exists(os.path.join(d, "README.md")) else ""
            m = {"id": f"{pid}-{vn}", "breaks_property": pid, "needs_to_manifest": "see README.md (written by the sub-agent that produced the change)",
                 "confirmed_by": "scripts/verify_seeds.py in scratch worktree %s/%s at repo HEAD %s" % (MUT, pid, head[:7]),
                 "what_was_run": ["git apply patch.diff", "cmake --build _build && ctest --test-dir _build -j8 --timeout 900 (suite passes with the change)",
                                  "run_demo.sh / demo.cpp: exit %s with the change, exit 0 without" % rc1],
                 "detected_by": [], "readme_head": readme[:1500]}
            json.dump(m, open(os.path.join(dst, "meta.json"), "w"), indent=1)
        res.append(meta)
    # leave the worktree clean and rebuilt without changes
    sh("git checkout -q -- .", wt)
    return res


def main():
    ids = sys.argv[1:] or [f"C{i:02d}" for i in range(1, 21)]
    os.makedirs(OUT, exist_ok=True)
    allres = []
    with cf.ThreadPoolExecutor(3) as ex:
        for r in ex.map(verify, ids):
            for m in r:
                print(m["id"], m["status"], "| suite with change:", m.get("suite_with_change"), "demo with/without:", m.get("demo_exit_with_change"), m.get("demo_exit_without_change"), flush=True)
                allres.append(m)
    json.dump(allres, open(os.path.join(MUT, "verify_results.json"), "w"), indent=1)


if __name__ == "__main__":
    main()
