#!/usr/bin/env python3
"""Regenerates /verif/MANIFEST.json from the table below (keeps the manifest valid and current)."""
import json
import os
import subprocess
import sys

HERE = os.path.dirname(os.path.abspath(__file__))
VERIF = os.path.dirname(HERE)
sys.path.insert(0, HERE)

BFS = "explicit-state BFS to fixpoint over operation histories of the real allocator objects (raw-memory state key, canon-on-replay), reference-model monitors on every transition"
TRUST = ("g++ 12 on x86-64/glibc; the harness reads private fields with -fno-access-control; the deterministic first-fit upstream and the shadow heap "
         "are the trusted model; sizes/alignments limited to the listed small alphabets; configurations rel/rwd/dbg(/dbg16) as in DESIGN.md 1.1")

# id -> (engine, category, technique, text, design_ref, note)
T = {
    "C01": ("explore", "model_checking", BFS + "; M-disjoint/M-inside/M-content/M-freelist",
            "Every history of the bounded configurations (pools, collections, stacks, iteration allocators, arenas; 2-3 build configurations) is explored to a "
            "fixpoint of the raw-memory state space, so histories of any length over the small alphabets are covered; after every operation every live byte is re-read.",
            "2/C01", TRUST),
    "C03": ("explore", "model_checking", BFS + " with try_ variants, exhausting fixed sources, oversize requests and an injected upstream failure at every reachable upstream call position",
            "Failure signalling is decided on every transition that fails (exception family + handler called, try_ never throws or grows, null only when nothing fits); "
            "the search continues behind every failure so earlier allocations and later requests are checked on all extensions.",
            "2/C03", TRUST),
    "C04": ("explore", "model_checking", BFS + "; M-capacity/M-nogrow/M-freelist (free nodes + nodes held by live allocations is invariant without growth)",
            "Capacity conservation is transition-local, so a cycle that loses a node fails at the release that loses it, for all interleavings of node/array operations on "
            "all three list implementations and the ordered debug node list.",
            "2/C04", TRUST),
    "C05": ("explore", "model_checking", BFS + " over memory_arena<cached|uncached> and arena based allocators with a logging block source and upstream fault injection (deviation bound 1-2); page-commit model for the virtual source; exhaustive scope sequences of temporary allocators over a heap observed through wrapped malloc/free",
            "The upstream/block-source log is checked on every call: same address/size/parameters, LIFO, cache before source, nothing outstanding after destruction, no write into returned blocks.",
            "2/C05", TRUST),
    "C06": ("explore", "model_checking", BFS + " with mark/unwind(j)/shrink_to_fit/move; twin comparison against a snapshot of the state when the marker was taken",
            "Unwinding is compared with the real earlier state (addresses and capacities of probe requests), not with a hand-written expectation; marker order and cache retention checked on every transition.",
            "2/C06", TRUST),
    "C07": ("explore", "model_checking", BFS + " for N=1..5 and block sizes covering every residue mod N",
            "Allocations stay in the shadow heap (content-checked) for exactly N iterations; region geometry is checked at construction and after every switch.",
            "2/C07", TRUST),
    "C12": ("explore", "model_checking", BFS + " over two object slots with construct/move-construct/move-assign/swap/destroy at every reachable state (<= 2 moves per history)",
            "A move is tried at every position of every history of the bounded configuration; ownership is transferred in the model and all memory-safety/upstream monitors continue; "
            "storage of destroyed objects and returned blocks must stay untouched.",
            "2/C12", TRUST),
    "C13": ("sched", "model_checking", "stateless exploration of all thread schedules of the real allocator_storage code under a cooperative scheduler with iterative preemption bounding (instrumented Mutex/allocator, no source hook)",
            "All schedules of every 2-3 thread program over all forwarding members (pairs quick, triples thorough) up to the preemption bound; lock ownership is checked at every entry into the wrapped allocator.",
            "2/C13", "sequentially consistent interleavings at mutex operations and allocator entry points; TSan side run (sampling) keeps plain data races visible; instrumented mutex stands for 'all mutex types'"),
    "C15": ("explore", "model_checking", BFS + " restricted to the allocator_traits family with a net-bytes ledger per object identity as moved; all thread schedules (every atomic operation a scheduling point) for the process-wide balance of the stateless allocators",
            "At every destruction reachable in the bounded configurations the leak handler must be called exactly once with the exact net (or not at all when balanced).",
            "2/C15", TRUST),
    "C19": ("enum", "model_checking", "exhaustive input enumeration (complete small domain x all alignments, boundary class around every power of two, all bucket selections) against 128-bit definitional references; explicit-state BFS over two collections of different max_node_size with moves for bucket selection after a move",
            "Exhaustive on the two input classes the property names; the full 2^64 x 64 product is not enumerable.",
            "2/C19", "unsigned __int128 reference arithmetic; g++ builtins"),
    "C20": ("faults", "fault_enumeration", "exhaustive enumeration of (helper, length 0..16, failing construction index, failing operation kind) on instrumented and real allocators",
            "Every constructor failure point of every helper is executed; per-object lifetime log and allocator call log decide.",
            "2/C20", "object identity = address + serial; logging allocator / tracker are trusted"),
}

T.update({
    "C02": ("explore", "model_checking", BFS + "; M-align/M-inside/M-disjoint, plus an exhaustive single-step request sweep (sizes x counts x alignments x 3 canonical positions) on every allocator kind",
            "Alignment, size and containment are checked on every transition of the explorations and on every request of the exhaustive sweep in fence and non-fence configurations.",
            "2/C02", TRUST),
    "C16": ("explore", "model_checking", BFS + " where every applicable invalid call is executed at every reachable state under containment (must end in the invalid-pointer handler or abort with memory and counters unchanged); DFS over all allocate/return sequences on the LIFO block sources; M-noreport on all valid histories",
            "Positive and negative direction: every covered invalid release/unwind/return at every state of the bounded configurations is reported or stops the program before anything changes; no valid history of any suite is ever reported.",
            "2/C16", TRUST + "; a contained abort (assertion/unreachable) counts as 'stops the program'"),
    "C18": ("explore", "model_checking", BFS + "; M-counters/M-maxima (exact capacity deltas, announced next block size == requested size, no request above a reported maximum succeeds), plus the exhaustive min_block_size grid (node size x count x pool type, byte sizes for stacks)",
            "Counter deltas are compared with the model on every transition; min_block_size is decided on the full grid the property names (thorough) by constructing the pool and allocating n nodes without growth.",
            "2/C18", TRUST),
    "C09": ("compose", "exploration", "exhaustive enumeration of wrapper compositions (depth 2 quick / 3 thorough) x request shapes x operation sequences over instrumented leaf allocators and trackers",
            "Leaf call logs decide forwarding and release parameters for every enumerated composition, shape and short sequence; compile probes decide 'forwards every request' for compositions that must compile.",
            "2/C09", "instrumented leaves/trackers are the trusted model; compile time bounds the composition depth"),
    "C10": ("compose", "exploration", "stateless DFS over all container operation sequences up to a depth on three containers bound to two instrumented allocator objects, differential against std::allocator; exhaustive element-type grid for the node size constants",
            "Every sequence up to the depth for every container family; per-allocator-object logs decide where each node is released; node size constants regenerated from /repo/cmake on every run.",
            "2/C10", "libstdc++ of this image; instrumented RawAllocator logs are trusted"),
    "C11": ("compose", "exploration", "exhaustive enumeration of joint layouts x additional sizes x element counts x operation sequences over two joint_ptr slots on two instrumented upstream allocators; every release path of joint_ptr compiled with -O2 against a non-escaping block ledger",
            "Every layout/size/count combination of the grid and every operation sequence up to the depth; the instrumented upstream with guard bytes decides containment, alignment, single release.",
            "2/C11", "instrumented upstream is trusted"),
    "C17": ("enum", "model_checking", "explicit-state BFS over pools/collections through allocator_traits with fill/content monitors; exhaustive input enumeration: every node size x alignment x byte offset of both fences x byte value on the four low-level allocators with a counting overflow handler; bounded exhaustive walk for fill patterns of arena allocators",
            "Every single-byte fence corruption of the stated grid must be reported exactly once with the exact address; in-bounds writes never; fill patterns checked on every returned and released range.",
            "2/C17", "the allocator's own fence layout is read from lowlevel_allocator"),
})

T.update({
    "C08": ("compose", "exploration", "stateless iterative-deepening enumeration of all operation sequences on three sibling composable allocators over one first-fit upstream with exactly adjacent blocks, and on fallback/segregator compositions over instrumented leaves",
            "Every try_deallocate of every live pointer of every sibling on every allocator, at every state reachable within the depth; leaf logs decide the routing in compositions.",
            "2/C08", "instrumented leaves and the shadow model are trusted; depth 4-5 (siblings) / 5-7 (compositions)"),
    "C14": ("sched", "model_checking", "stateless exploration of all thread schedules (iterative preemption bounding) of the real temporary-stack list code, scheduling points at every atomic operation through a compile-time <atomic> shim, one forked process per execution so that program exit is part of it; exhaustive DFS of single-thread histories in stack modes 1 and 2",
            "All programs of 2-4 threads up to 2-4 steps and all schedules up to the preemption bound; exclusivity is checked before every atomic operation; heap balance at process exit.",
            "2/C14", "sequentially consistent interleavings at atomic operations; plain accesses between them execute atomically; malloc/free wrapped for the heap balance"),
})

AGENT_BUILT = {"C08", "C09", "C10", "C11", "C13", "C14", "C17", "C19", "C20"}

NOT_YET = {}


def main():
    import checks
    props = [json.loads(l)["id"] for l in open(os.path.join(VERIF, "properties.jsonl"))]
    cks = []
    for pid in props:
        if pid in T and pid in checks.CHECKS and (pid not in AGENT_BUILT or os.path.exists(os.path.join(VERIF, "design", f"notes_{pid}.md"))):
            eng, cat, tech, text, ref, note = T[pid]
            cks.append({
                "property_id": pid,
                "quick_cmd": f"./check {pid} --tier quick",
                "thorough_cmd": f"./check {pid} --tier thorough",
                "evidence_file": f"/verif/evidence/{pid}.json",
                "replay_cmd_template": f"./check {pid} --replay {{path}}",
                "engine": eng,
                "level_claimed": {"category": cat, "text": text, "design_ref": "DESIGN.md section " + ref},
                "level_note": note,
                "technique": tech,
            })
    na = [{"property_id": p, "reason": NOT_YET.get(p, "not claimed")} for p in props if p not in {c["property_id"] for c in cks}]
    hooks_commits = []
    m = {
        "version": 1,
        "setup_cmd": "./check --setup",
        "hooks": {
            "guard": "FOONATHAN_MEMORY_VERIF",
            "enable": "no source hooks are needed: harness TUs are compiled against /repo's headers with -fno-access-control, library aborts are contained "
                      "with -Wl,--wrap=abort, scheduling points come from instrumented template arguments (C13) and a compile-time <atomic> shim (C14)",
            "baseline_off_cmd": "cmake --build /repo/_build && ctest --test-dir /repo/_build -j8 --timeout 900",
            "source_commits": hooks_commits,
            "add_only": True,
        },
        "engines": [
            {"name": "explore", "path": "engine/explore.hpp + harness/asys.hpp", "serves_properties": ["C01", "C02", "C03", "C04", "C05", "C06", "C07", "C08", "C12", "C15", "C16", "C17", "C18"],
             "kind_free_text": "explicit-state BFS over operation histories replayed on fresh real objects; state = raw bytes of object + deterministic upstream arena + shadow model"},
            {"name": "sched", "path": "engine/sched.hpp", "serves_properties": ["C13", "C14"],
             "kind_free_text": "cooperative preemption-bounded scheduler over real threads, DFS over choice sequences"},
            {"name": "enum", "path": "harness/h_arith.cpp, h_fence.cpp, h_minblock.cpp, h_sweep.cpp", "serves_properties": ["C02", "C17", "C18", "C19"],
             "kind_free_text": "exhaustive enumeration of finite input domains against definitional references"},
            {"name": "faults", "path": "harness/h_exc.cpp", "serves_properties": ["C20"], "kind_free_text": "enumeration of every constructor failure point"},
            {"name": "compose", "path": "harness/h_adapt.cpp, h_stl.cpp, h_joint_p0..3.cpp, h_joint_x.cpp, h_jointlife.cpp", "serves_properties": ["C09", "C10", "C11"],
             "kind_free_text": "stateless DFS over all operation sequences up to a depth on wrapper compositions / containers / joint objects"},
        ],
        "checks": cks,
        "not_applicable": na,
        "notes": "All checks rebuild the library and their harness from /repo's working tree (object cache keyed by a hash of src/, include/, cmake/). "
                 "Known findings: /verif/known_findings.json. Per-defect repair patches: /verif/fixes/.",
    }
    with open(os.path.join(VERIF, "MANIFEST.json"), "w") as f:
        json.dump(m, f, indent=1)
        f.write("\n")
    try:
        import jsonschema
        jsonschema.validate(m, json.load(open("/root/.vp/MANIFEST.schema.json")))
        print("MANIFEST.json valid;", len(cks), "checks,", len(na), "not applicable")
    except ImportError:
        print("written (jsonschema not available)")


if __name__ == "__main__":
    main()
