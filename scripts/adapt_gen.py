"""C09: generator for the wrapper compositions exercised by harness/h_adapt.cpp.

A composition is a tree: ("L",) instrumented stateful leaf, ("S",) stateless leaf, unary wrappers
AD allocator_adapter, TS thread_safe_allocator, AL aligned_allocator, TR tracked_allocator,
REF allocator_reference, ANY any_allocator_reference, MR memory_resource_allocator over
memory_resource_adapter<X>, SEGN segregator<threshold<X>> (null_allocator fallback); binary SEG
binary_segregator<threshold<X>, Y>, FB fallback_allocator<X, Y>; ternary SEG2
segregator<threshold<X>, threshold<Y>, Z>.  Every leaf / tracker gets a distinct type (position index).
"""
import hashlib

UNARY = ["AD", "TS", "AL", "TR", "REF", "ANY", "MR", "SEGN"]
ALL_TYPED = (1 << 15) - 1


def name(t):
    return t[0] if len(t) == 1 else t[0] + "(" + ",".join(name(c) for c in t[1:]) + ")"


def depth(t):
    return 0 if len(t) == 1 else 1 + max(depth(c) for c in t[1:])


def composable(t):
    k = t[0]
    if k in ("L", "S"):
        return True
    if k in ("AD", "TS", "REF", "AL", "TR", "ANY"):
        return composable(t[1])
    if k == "FB":
        return composable(t[2])
    return False  # segregators, MR


SEG_BIN = {"SEG": "fm::threshold_segregatable", "NSEG": "node_only_segregatable", "ESEG": "element_segregatable"}
SEG_NULL = {"SEGN": "fm::threshold_segregatable", "NSEGN": "node_only_segregatable"}
SEG_TERN = ("SEG2", "ESEG2")
SEG_ALL = tuple(SEG_BIN) + tuple(SEG_NULL) + SEG_TERN
CUSTOM = ("NSEG", "ESEG", "NSEGN", "ESEG2")


def uses_custom(t):
    return t[0] in CUSTOM or any(uses_custom(c) for c in t[1:])


def well_formed(t):
    k = t[0]
    if k in ("L", "S"):
        return True
    if not all(well_formed(c) for c in t[1:]):
        return False
    if k == "FB":
        return composable(t[1])  # Default must be composable
    return True


def has_null(t):
    return t[0] in SEG_NULL or any(has_null(c) for c in t[1:])


def max_align(t):
    """what max_alignment() of the composition reports (aligned_allocator: min_alignment must not exceed it)"""
    k = t[0]
    if k in ("L", "S"):
        return 64
    if k in SEG_ALL:
        return 16  # binary_segregator has no max_alignment() (member is misspelt): traits default
    if k == "MR":
        return 1 << 30
    if k == "FB":
        return max(max_align(t[1]), max_align(t[2]))
    return max_align(t[1])


def stateless(t):
    return t[0] == "S"


def bases(t):
    """marker classes the composition type inherits from (the adapters store the wrapped allocator as a base)"""
    k = t[0]
    if k in ("L", "S", "MR") or k in SEG_NULL:
        return set()
    if k == "REF":
        return {"mutex<no_mutex>"}
    if k == "ANY":
        return {"mutex<no_mutex>", "any_allocator_reference"}
    if k == "AD":
        return {"mutex<no_mutex>"} | bases(t[1])
    if k == "TS":
        return {"mutex<no_mutex>" if stateless(t[1]) else "mutex<std::mutex>"} | bases(t[1])
    if k == "AL":
        return bases(t[1])
    if k == "TR":
        return {"tracker"} | bases(t[1])
    if k in SEG_BIN or k in SEG_TERN:
        return bases(t[-1])
    if k == "FB":
        return bases(t[1]) | bases(t[2])
    raise ValueError(k)


def base_clash(t):
    """None, or the pattern name of an inheritance clash that keeps the composition from compiling:
    allocator_storage directly or indirectly deriving from another allocator_storage with the same mutex
    storage (conversion to mutex_storage<M> is ambiguous), tracked_allocator deriving from another
    tracked_allocator (tracker member lookup is ambiguous), any_allocator_reference to a type deriving from
    any_allocator_reference (the converting constructor is disabled, the copy constructor needs the private base)."""
    k = t[0]
    for c in t[1:]:
        r = base_clash(c)
        if r:
            return r
    if k == "AD" and "mutex<no_mutex>" in bases(t[1]):
        return "storage"
    if k == "TS" and ("mutex<no_mutex>" if stateless(t[1]) else "mutex<std::mutex>") in bases(t[1]):
        return "storage"
    if k == "TR" and "tracker" in bases(t[1]):
        return "tracker"
    if k == "ANY" and t[1][0] == "ANY":
        return "anycopy"  # not a new level: any_allocator_reference(any_allocator_reference&) is the copy constructor
    if k == "ANY" and "any_allocator_reference" in bases(t[1]):
        return "anyref"  # constructor is disabled for types deriving from any_allocator_reference
    return None


class Emit:
    def __init__(self):
        self.nl = self.nt = self.na = self.ns = 0
        self.tracker_mask = []
        self.align_cap = []

    def go(self, t):
        """returns (type, expression, leaf position mask)"""
        k = t[0]
        if k == "L":
            i = self.nl
            self.nl += 1
            return f"leaf<{i}>", f"leaf<{i}>(e.leaf({i}))", 1 << i
        if k == "S":
            i = self.nl
            self.nl += 1
            return f"sleaf<{i}>", f"sleaf<{i}>()", 1 << i
        if k in ("AD", "TS"):
            T, E, m = self.go(t[1])
            W = f"fm::{'allocator_adapter' if k == 'AD' else 'thread_safe_allocator'}<{T}>"
            return W, f"{W}({E})", m
        if k == "AL":
            a = self.na
            self.na += 1
            self.align_cap.append(min(64, max_align(t[1])))
            T, E, m = self.go(t[1])
            W = f"fm::aligned_allocator<{T}>"
            return W, f"{W}(e.min_align({a}), {E})", m
        if k == "TR":
            j = self.nt
            self.nt += 1
            self.tracker_mask.append(0)
            T, E, m = self.go(t[1])
            self.tracker_mask[j] = m
            W = f"fm::tracked_allocator<tracker<{j}>, {T}>"
            return W, f"{W}(tracker<{j}>(e.tracker({j})), {E})", m
        if k == "REF":
            T, E, m = self.go(t[1])
            W = f"fm::allocator_reference<{T}>"
            return W, f"{W}(e.keep<{T}>({E}))", m
        if k == "ANY":
            T, E, m = self.go(t[1])
            return "fm::any_allocator_reference", f"fm::any_allocator_reference(e.keep<{T}>({E}))", m
        if k == "MR":
            T, E, m = self.go(t[1])
            return ("fm::memory_resource_allocator",
                    f"fm::memory_resource_allocator(&e.keep<fm::memory_resource_adapter<{T}>>({E}))", m)
        if k in SEG_NULL:
            s = self.ns
            self.ns += 1
            T, E, m = self.go(t[1])
            G = f"{SEG_NULL[k]}<{T}>"
            W = f"fm::segregator<{G}>"
            return W, f"{W}({G}(e.threshold({s}), {E}))", m
        if k in SEG_BIN:
            s = self.ns
            self.ns += 1
            T1, E1, m1 = self.go(t[1])
            T2, E2, m2 = self.go(t[2])
            G = f"{SEG_BIN[k]}<{T1}>"
            W = f"fm::binary_segregator<{G}, {T2}>"
            return W, f"{W}({G}(e.threshold({s}), {E1}), {E2})", m1 | m2
        if k == "SEG2":
            s = self.ns
            self.ns += 2
            T1, E1, m1 = self.go(t[1])
            T2, E2, m2 = self.go(t[2])
            T3, E3, m3 = self.go(t[3])
            W = f"fm::segregator<fm::threshold_segregatable<{T1}>, fm::threshold_segregatable<{T2}>, {T3}>"
            return (W, f"fm::make_segregator(fm::threshold(e.threshold({s}), {E1}), "
                       f"fm::threshold(e.threshold({s + 1}), {E2}), {E3})", m1 | m2 | m3)
        if k == "ESEG2":  # segregator<> alias with two user-written Segregatables
            s = self.ns
            self.ns += 2
            T1, E1, m1 = self.go(t[1])
            T2, E2, m2 = self.go(t[2])
            T3, E3, m3 = self.go(t[3])
            G1, G2 = f"element_segregatable<{T1}>", f"node_only_segregatable<{T2}>"
            W = f"fm::segregator<{G1}, {G2}, {T3}>"
            return (W, f"fm::make_segregator({G1}(e.threshold({s}), {E1}), {G2}(e.threshold({s + 1}), {E2}), {E3})",
                    m1 | m2 | m3)
        if k == "FB":
            T1, E1, m1 = self.go(t[1])
            T2, E2, m2 = self.go(t[2])
            W = f"fm::fallback_allocator<{T1}, {T2}>"
            return W, f"{W}({E1}, {E2})", m1 | m2
        raise ValueError(k)


def uses_stateless(t):
    return t[0] == "S" or any(uses_stateless(c) for c in t[1:])


def level(prev, leaf=("L",)):
    out = []
    for x in prev:
        for u in UNARY:
            out.append((u, x))
        out.append(("SEG", x, leaf))
        out.append(("SEG", leaf, x))
        out.append(("FB", x, leaf))
        out.append(("FB", leaf, x))
        out.append(("SEG2", x, leaf, leaf))
    return out


def custom_level(prev, leaf=("L",), first=False):
    """segregators with user-written Segregatables (node rule != array rule) over the previous level"""
    out = []
    for x in prev:
        for k in ("NSEG", "ESEG"):
            out.append((k, x, leaf))
            out.append((k, leaf, x))
        if first:
            out.append(("NSEGN", x))
            out.append(("ESEG2", x, leaf, leaf))
    return out


def enumerate_compositions(max_depth, limit_depth3=None):
    """all well-formed compositions up to max_depth (binary adapters: one child ranges over all compositions of
    depth d-1, the other children are leaves), plus the depth-1 compositions over stateless leaves"""
    seen, out = set(), []

    def add(t):
        n = name(t)
        if n not in seen and well_formed(t):
            seen.add(n)
            out.append(t)
            return True
        return False

    cur = [("L",)]
    add(("L",))
    add(("S",))
    for t in level([("S",)], leaf=("S",)) + custom_level([("S",)], leaf=("S",), first=True):
        add(t)
    custom1 = []
    for d in range(1, max_depth + 1):
        nxt = []
        for t in level(cur):
            if add(t):
                nxt.append(t)
        # custom segregators: built over the previous level, not fed into the next one, except that the
        # depth-1 ones are also put under every unary wrapper at depth 2
        for t in custom_level(cur, first=(d == 1)):
            if add(t) and d == 1:
                custom1.append(t)
        if d == 2:
            for x in custom1:
                for u in UNARY:
                    add((u, x))
        cur = nxt
    return out


def claims_composable(t):
    """what is_composable_allocator<type> says (presence of try_ members; tracked_allocator always declares them)"""
    k = t[0]
    if k in ("L", "S", "TR", "ANY"):
        return True
    if k in ("AD", "TS", "REF", "AL"):
        return claims_composable(t[1])
    if k == "FB":
        return claims_composable(t[2])
    return False


def try_instantiable(t):
    """whether the try_ members of the type can be instantiated"""
    k = t[0]
    if k in ("L", "S", "ANY"):
        return True
    if k in ("AD", "TS", "REF", "AL"):
        return try_instantiable(t[1])
    if k == "TR":
        return claims_composable(t[1]) and try_instantiable(t[1])
    if k == "FB":
        return try_instantiable(t[1]) and try_instantiable(t[2])
    return False


def any_tracked_noncomposable(t):
    """any_allocator_reference instantiates the composable members of whatever claims to be composable;
    tracked_allocator over a non-composable allocator claims it and cannot deliver"""
    if t[0] == "ANY" and claims_composable(t[1]) and not try_instantiable(t[1]):
        return True
    return any(any_tracked_noncomposable(c) for c in t[1:])


def typed_mode(t, tier, cfg="rwd"):
    """0 none, 1 reduced set (5 value types), 2 full matrix (5 sizes x 7 alignments), 3 mini (2 value types)"""
    d = depth(t)
    if uses_custom(t) and d >= (2 if tier == "quick" else 3):
        return 0
    if tier == "quick":
        if cfg == "dbg":
            return {0: 2}.get(d, 3)
        return {0: 2, 1: 1}.get(d, 3)
    return {0: 2, 1: 2, 2: 1}.get(d, 3)


def typed_parts(t, tier, cfg="rwd"):
    return {0: [], 1: ["r"], 2: ["1", "24", "65535", "65536", "70000"], 3: ["m"]}[typed_mode(t, tier, cfg)]


def comp_source(idx, t):
    em = Emit()
    T, E, _ = em.go(t)
    n = name(t)
    comp_flag = "true" if composable(t) else "false"
    lines = [f"// {n}",
             f"namespace c{idx} {{",
             f"using type = {T};",
             f"static void build(env& e, void* w) {{ ::new (w) type({E}); }}",
             f"static void reg(registry& r) {{",
             f"  comp c; c.name = \"{n}\"; c.type = \"{T}\";",
             f"  c.n_leaves = {em.nl}; c.n_trackers = {em.nt}; c.n_align = {em.na}; c.n_seg = {em.ns}; c.depth = {depth(t)};",
             f"  c.has_null = {'true' if has_null(t) else 'false'}; c.stateless = {'true' if uses_stateless(t) else 'false'}; c.root_aligned = {'true' if t[0] == 'AL' else 'false'};"]
    for j, m in enumerate(em.tracker_mask[:4]):
        lines.append(f"  c.tracker_mask[{j}] = {m}u;")
    for j, a in enumerate(em.align_cap[:4]):
        lines.append(f"  c.align_cap[{j}] = {a};")
    lines.append(f"  ops<type, {comp_flag}>::fill(c); c.build = &build;")
    lines.append("  r.comps.push_back(std::move(c));")
    lines.append("}")
    lines.append("}")
    return "\n".join(lines) + "\n"


HEADER = '#include "harness/adapt_common.hpp"\nusing namespace adapt;\n'


def group_source(gid, members):
    """members: list of (idx, tree)"""
    s = HEADER + "namespace {\n"
    for idx, t in members:
        s += comp_source(idx, t)
    s += "}\n"
    s += f"void adapt_register_group_{gid}(adapt::registry& r) {{\n"
    for idx, _ in members:
        s += f"  c{idx}::reg(r);\n"
    s += "}\n"
    return s


TK = {"UNIQUE": 0, "UNIQUE_ANY": 1, "UARRAY": 2, "UARRAY_ANY": 3, "POLY": 4, "POLY_ANY": 5, "SHARED": 6, "STD": 7,
      "STD_ANY": 8, "DEALLOC": 9, "DEALLOC_ARR": 10, "DEALLOC_POLY": 11}
ANY_KINDS = (1 << 1) | (1 << 3) | (1 << 5) | (1 << 8) | (1 << 13)


def typed_mask(t, poly_any_ok=False, any_tracked_ok=False):
    """helper kinds that are well-formed for the composition type (and compile-probed features)"""
    m = ALL_TYPED
    if not poly_any_ok:
        m &= ~(1 << TK["POLY_ANY"])
    if "any_allocator_reference" in bases(t):
        m &= ~(1 << TK["STD_ANY"])  # same clash as ANY(x): the type-erasing constructor is disabled
    if claims_composable(t) and not try_instantiable(t) and not any_tracked_ok:
        m &= ~ANY_KINDS  # type erasure instantiates the composable members
    return m


def typed_source(idx, t, part, mask):
    em = Emit()
    T, _, _ = em.go(t)
    call = {"r": f"add_typed_reduced<type, {mask}u>", "m": f"add_typed_mini<type, {mask}u>"}.get(
        part, f"add_typed_aligns<type, {part}, {mask}u>")
    return (HEADER + f"// typed helpers over {name(t)}\nnamespace {{ using type = {T}; }}\n"
            f"void adapt_typed_{idx}_{part}(adapt::registry& r) {{\n"
            f"  for (auto& c : r.comps) if (c.name == \"{name(t)}\") {call}(c);\n}}\n")


def typed_group_source(gid, members):
    """members: list of (idx, tree, part, mask) - several small typed sets in one TU"""
    s = HEADER
    body = ""
    for idx, t, part, mask in members:
        em = Emit()
        T, _, _ = em.go(t)
        call = {"r": f"add_typed_reduced<t{idx}, {mask}u>", "m": f"add_typed_mini<t{idx}, {mask}u>"}[part]
        s += f"namespace {{ using t{idx} = {T}; }}\n"
        body += f"    if (c.name == \"{name(t)}\") {call}(c);\n"
    return s + f"void adapt_typedg_{gid}(adapt::registry& r) {{\n  for (auto& c : r.comps) {{\n{body}  }}\n}}\n"


def probe_source(idx, t):
    return HEADER + "namespace {\n" + comp_source(idx, t) + "}\n" + \
        f"void adapt_probe_{idx}(adapt::registry& r) {{ c{idx}::reg(r); }}\n"


def main_source(reg_base, reg_typed):
    s = HEADER
    for f in list(reg_base) + list(reg_typed):
        s += f"void {f}(adapt::registry&);\n"
    s += "void adapt_register_all(adapt::registry& r) {\n"
    for f in list(reg_base) + list(reg_typed):
        s += f"  {f}(r);\n"
    s += "}\n"
    return s


if __name__ == "__main__":
    import sys
    d = int(sys.argv[1]) if len(sys.argv) > 1 else 2
    cs = enumerate_compositions(d)
    for t in cs:
        print(depth(t), name(t), "composable" if composable(t) else "")
    print(len(cs), "compositions", file=sys.stderr)
