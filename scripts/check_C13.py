"""C13 - thread_safe_allocator serialises all access to the wrapped allocator.

Deciding step: harness/h_tsafe.cpp enumerates, with the cooperative scheduler engine/sched.hpp, every schedule
(up to a preemption bound; most shapes need no bound) of small multi-threaded programs over all forwarding
members of allocator_storage and the lock() proxy, on the real allocator_storage code instantiated with an
instrumented Mutex and an instrumented RawAllocator. Side run (sampling, not deciding): the same bodies
free-running with std::mutex under ThreadSanitizer.
"""
import json
import os
import shlex
import subprocess
import sys
import time

H = "h_tsafe"
TSAN_EXTRA = ("-DTSAFE_TSAN", "-fsanitize=thread")
TSAN_NAME = "h_tsafe_tsan"
LL_NAME = "h_tsafe_ll"
LL_SOURCES = ("heap_allocator.cpp", "malloc_allocator.cpp", "new_allocator.cpp", "virtual_memory.cpp", "error.cpp", "debugging.cpp")


def _build_ll(cfg):
    """h_tsafe with -DTSAFE_LL, linked in front of libfm.a with the library's four low-level allocator TUs compiled from
    the working tree with engine/atomic_shim.hpp force-included (every atomic operation = scheduling point)"""
    import hashlib
    import vlib
    vlib.build_lib(cfg)
    shim = os.path.join(vlib.VERIF, "engine", "atomic_shim.hpp")
    flags = ["-std=c++17", "-O1", "-g", "-fPIC", "-w"] + vlib.BASE_DEFS + ["-include", shim]
    flags += vlib.inc_flags(cfg, os.path.join(vlib.VERIF, "engine", "stub"))
    key = hashlib.sha256((vlib.repo_hash() + cfg + " ".join(flags) + open(shim).read()).encode()).hexdigest()[:16]
    base = os.path.join(vlib.BUILD, "obj", "tsafe_ll_shim-" + cfg)
    d = os.path.join(base, key)
    objs = [os.path.join(d, f.replace(".cpp", ".shim.o")) for f in LL_SOURCES]
    if not all(os.path.exists(o) for o in objs):
        vlib._prune(base, key)
        os.makedirs(d, exist_ok=True)
        import concurrent.futures as cf

        def one(fo):
            f, o = fo
            return f, o, vlib.sh([vlib.CXX] + flags + ["-c", os.path.join(vlib.REPO, "src", f), "-o", o + ".tmp"])

        with cf.ThreadPoolExecutor(4) as ex:
            for f, o, r in list(ex.map(one, zip(LL_SOURCES, objs))):
                if r.returncode != 0:
                    raise vlib.BuildError(f"src/{f} does not compile in configuration {cfg} with engine/atomic_shim.hpp "
                                          f"force-included:\n{r.stdout[-3000:]}")
                os.rename(o + ".tmp", o)
    # object files among the flags: linked before the harness TU and libfm.a, so their definitions win;
    # -fno-inline: lowlevel_allocator<> is an extern template, the harness TU must CALL the shimmed instantiation
    # instead of inlining an unshimmed copy of allocate_node/deallocate_node (the harness checks this: vacuity per allocator)
    return vlib.build_harness(f"harness/{H}.cpp", cfg, extra=tuple(objs) + ("-DTSAFE_LL", "-fno-inline"), name=LL_NAME)


def _replay_ll(js, cfg="dbg"):
    return subprocess.run([_build_ll(cfg), "--replay", js]).returncode


def _jobs(tier):
    """(name, cfg, args) - longest first so that the 16 workers stay busy"""
    import checks
    J = checks.J
    jobs = []
    storages = ["direct", "ref", "any"]

    def add(cfg, storage, alloc, shape, bound, parts=1, mutex=None):
        for k in range(parts):
            a = f"--storage {storage} --alloc {alloc} --shape {shape}"
            if mutex:
                a += f" --mutex {mutex}"
            if bound is not None:
                a += f" --bound {bound}"
            if parts > 1:
                a += f" --part {k}/{parts}"
            jobs.append(J(H, cfg, a, name=f"sched/{storage}/{alloc}{'+' + mutex + '-mutex' if mutex else ''}/{shape}/"
                                           f"b{'inf' if bound == 1000 else bound}[{cfg}]"
                                           + (f" part {k}/{parts}" if parts > 1 else "")))

    INF = 1000  # no preemption bound: the enumeration ends only when no alternative is left
    if tier == "quick":
        for s in storages:
            add("dbg", s, "stateful", "3x2", 2, parts=4)     # all ordered pairs of members, <= 2 preemptions
        for s in storages:
            add("dbg", s, "stateful", "3x1", INF, parts=3)   # all multisets of 3 members, every schedule
        for s in storages:
            add("dbg", s, "stateful", "2x2", INF)            # all ordered pairs, every schedule
            add("dbg", s, "stateful", "2x1", INF)            # all pairs, every schedule
        for s in storages:
            add("dbg", s, "empty", "3x1", INF, parts=2)      # empty class with is_stateful = true_type: locked like any stateful one
            add("dbg", s, "empty", "2x2", INF)
            add("dbg", s, "empty", "2x1", INF)
        # composed allocators: tracked_allocator<stateful tracker, stateless allocator> and <empty tracker, stateful allocator>
        add("dbg", "direct", "tracked-sf", "3x1", INF, parts=3)
        for s in storages:
            for al in ("tracked-sf", "tracked-es"):
                add("dbg", s, al, "2x2", INF)
                add("dbg", s, al, "2x1", INF)
        # fallback_allocator<stateless default, stateful fallback> (and the reverse): statefulness from ONE part
        for s in storages:
            add("dbg", s, "fallback-sf", "2x2", INF)
            add("dbg", s, "fallback-sf", "2x1", INF)
        add("dbg", "direct", "fallback-fs", "2x2", INF)
        add("dbg", "direct", "fallback-fs", "2x1", INF)
        # allocator_adapter<stateful> as the wrapped allocator; a type-erased handle made from the storage object
        # (odd threads work through any_allocator_reference(storage), even threads use the storage directly)
        add("dbg", "direct", "handle", "3x1", INF, parts=3)
        for s in storages:
            for al in ("adapter", "handle"):
                if al == "adapter" and s == "direct":
                    continue  # see adapter_maker in the harness
                add("dbg", s, al, "2x2", INF)
                add("dbg", s, al, "2x1", INF)
        # second Mutex type: an empty class locking a process-wide mutex
        add("dbg", "direct", "stateful", "3x1", INF, parts=2, mutex="empty")
        for s in storages:
            add("dbg", s, "stateful", "2x2", INF, mutex="empty")
            add("dbg", s, "stateful", "2x1", INF, mutex="empty")
        for s in ("direct", "ref"):
            add("dbg", s, "stateless", "3x1", INF)
            add("dbg", s, "stateless", "2x2", INF)
    else:
        for s in storages:
            add("dbg", s, "stateful", "3x2", INF, parts=16)  # all multisets of 3 members, 2 calls per thread, every schedule
        add("dbg", "direct", "stateful", "4x1", 2, parts=16)  # 4 threads, all multisets of 4 members, <= 2 preemptions
        for cfg in ("dbg", "rel"):
            for s in storages:
                add(cfg, s, "stateful", "3x1", INF, parts=2)
                add(cfg, s, "stateful", "2x3", INF)
                add(cfg, s, "stateful", "2x2", INF)
                add(cfg, s, "stateful", "2x1", INF)
                add(cfg, s, "empty", "3x1", INF, parts=2)
                add(cfg, s, "empty", "2x3", INF)
                add(cfg, s, "empty", "2x2", INF)
                add(cfg, s, "empty", "2x1", INF)
            for s in ("direct", "ref"):
                add(cfg, s, "stateless", "3x1", INF)
                add(cfg, s, "stateless", "2x2", INF)
        add("rel", "any", "stateful", "3x2", 3, parts=8)
        for s in storages:
            add("dbg", s, "empty", "3x2", 3, parts=4)
        for s in storages:
            for al in ("tracked-sf", "tracked-es"):
                add("dbg", s, al, "3x1", INF, parts=3)
                add("dbg", s, al, "2x3", INF)
                add("dbg", s, al, "2x2", INF)
                add("dbg", s, al, "2x1", INF)
            add("dbg", s, "stateful", "3x1", INF, parts=2, mutex="empty")
            add("dbg", s, "stateful", "2x3", INF, mutex="empty")
            add("dbg", s, "stateful", "2x2", INF, mutex="empty")
            add("dbg", s, "stateful", "2x1", INF, mutex="empty")
        add("dbg", "direct", "tracked-sf", "3x2", 3, parts=4)
        for cfg in ("dbg", "rel"):
            for s in storages:
                for al in ("adapter", "handle"):
                    if al == "adapter" and s == "direct":
                        continue
                    add(cfg, s, al, "3x1", INF, parts=3)
                    add(cfg, s, al, "2x3", INF)
                    add(cfg, s, al, "2x2", INF)
                    add(cfg, s, al, "2x1", INF)
        add("dbg", "direct", "handle", "3x2", 3, parts=4)
        for s in storages:
            for al in ("fallback-sf", "fallback-fs"):
                add("dbg", s, al, "3x1", INF, parts=3)
                add("dbg", s, al, "2x3", INF)
                add("dbg", s, al, "2x2", INF)
                add("dbg", s, al, "2x1", INF)
        add("dbg", "direct", "stateful", "3x2", 3, parts=4, mutex="empty")
    jobs.append(J(H, "dbg", "--selftest", name="selftest[dbg]"))
    # stateless low-level allocators: shared leak balance under all schedules (needs a configuration with leak checking)
    for cfg in (("dbg",) if tier == "quick" else ("dbg", "rwd")):
        jobs.append(J(LL_NAME, cfg, "--ll", name=f"lowlevel-leak-balance[{cfg}]"))
    return jobs


def _replay_tsan(js, cfg="dbg", quiet=False):
    import vlib
    exe = vlib.build_harness(f"harness/{H}.cpp", cfg, extra=TSAN_EXTRA, name=TSAN_NAME)
    env = dict(os.environ, TSAN_OPTIONS=os.environ.get("TSAN_OPTIONS", "exitcode=0"))
    kw = {"stdout": subprocess.DEVNULL, "stderr": subprocess.DEVNULL} if quiet else {}
    try:
        return subprocess.run([exe, "--replay", js], env=env, timeout=120, **kw).returncode
    except subprocess.TimeoutExpired:
        print("free run hung")
        return 1


def check(prop, tier, only):
    import checks
    import vlib
    from vlib import log
    import concurrent.futures as cf
    t0 = time.time()
    jobs = _jobs(tier)
    if only:
        jobs = [j for j in jobs if only in j["name"]]
    # build (BuildError of the plain harness propagates: the tree does not compile)
    exes = {}
    cfgs = sorted({j["cfg"] for j in jobs if j["h"] == H})
    ll_cfgs = sorted({j["cfg"] for j in jobs if j["h"] == LL_NAME})
    with cf.ThreadPoolExecutor(6) as ex:
        futs = {ex.submit(vlib.build_harness, f"harness/{H}.cpp", cfg): cfg for cfg in cfgs}
        futs.update({ex.submit(_build_ll, cfg): ("ll", cfg) for cfg in ll_cfgs})
        want_tsan = (not only) or (only in "tsan-side-run[dbg]")
        ftsan = ex.submit(vlib.build_harness, f"harness/{H}.cpp", "dbg", extra=TSAN_EXTRA, name=TSAN_NAME) if want_tsan else None
        for f in cf.as_completed(futs):
            exes[futs[f]] = f.result()
        tsan_exe, tsan_state = None, "ran"
        if want_tsan:
            try:
                tsan_exe = ftsan.result()
            except vlib.BuildError as e:
                tsan_state = "unavailable: ThreadSanitizer build failed: " + str(e)[-300:]
        else:
            tsan_state = "filtered out"
    # one global deadline for all jobs of the run (exit 0, exhaustive:false when hit); the clock starts AFTER the builds:
    # on an overloaded machine compiling alone once took longer than the quick budget, and every job then stopped before
    # its first program (nothing checked, vacuity errors)
    budget = 150 if tier == "quick" else 1100
    t_run = time.time()
    argv_jobs = [(j["name"], [exes[j["cfg"] if j["h"] == H else ("ll", j["cfg"])]] + shlex.split(j["args"])
                  + ["--tier", tier, "--time_s", str(budget), "--deadline", str(int(t_run + budget))]) for j in jobs]
    if tsan_exe:
        os.environ.setdefault("TSAN_OPTIONS", "exitcode=0")
        # first in the list: it is one sequential process and would otherwise be the tail of the run
        jobs.insert(0, checks.J(H, "dbg", "--tsan", name="tsan-side-run[dbg]"))
        argv_jobs.insert(0, ("tsan-side-run[dbg]", [tsan_exe, "--tsan", "--tier", tier, "--deadline", str(int(t_run + budget))]))
    results = vlib.run_jobs(argv_jobs, timeout=budget + 300)

    states = trans = traces = 0
    per, samples, errors, known = [], [], [], []
    viol = {}  # tag -> record (first case of every tag)
    exhaustive = True
    shapes = {}
    tsan_info = {"state": tsan_state}
    selftest = {"state": "not run"}
    members = {}
    contended = 0
    for j, (label, rc, js, txt) in zip(jobs, results):
        if js is None:
            errors.append(f"{label}: harness produced no result (rc={rc}): {txt[-400:]}")
            continue
        e = js.get("extra", {})
        is_tsan = label.startswith("tsan")
        if label.startswith("selftest"):
            selftest = {"executions": js.get("evaluations", 0), "passed": not js.get("harness_errors"),
                        "cases": js.get("samples", [])}
            for he in js.get("harness_errors", []):
                errors.append(f"{label}: {he}")
            continue
        for he in js.get("harness_errors", []):
            errors.append(f"{label}: {he}")
        if is_tsan:
            tsan_info.update({"free_runs": e.get("free_runs", 0), "reports": e.get("tsan_reports", 0), "wall_s": js.get("wall_s", 0)})
        else:
            states += e.get("states", 0)
            trans += e.get("transitions", 0)
            traces += e.get("traces_validated_against_impl", 0)
            contended += e.get("executions_with_contended_mutex", 0)
            exhaustive = exhaustive and bool(js.get("exhaustive", False))
            for k, v in e.get("allocator_entries_by_member", {}).items():
                members[k] = members.get(k, 0) + v
            pb = e.get("preemption_bound", -1)
            key = f"{e.get('shape')}/{e.get('alloc')}/" + ("all schedules" if pb < 0 else f"<={pb} preemptions")
            sh = shapes.setdefault(key, {"programs": 0, "executions": 0, "preemption_bound": e.get("preemption_bound"),
                                         "all_schedules_of_every_program": True, "bound_completed": None,
                                         "executions_by_preemptions": []})
            sh["programs"] += e.get("programs", 0)
            sh["executions"] += e.get("traces_validated_against_impl", 0)
            sh["all_schedules_of_every_program"] = sh["all_schedules_of_every_program"] and bool(e.get("no_bound_needed"))
            if e.get("preemption_bound", -1) != sh["preemption_bound"]:
                sh["preemption_bound"] = max(sh["preemption_bound"], e.get("preemption_bound", -1))
            bc = e.get("preemption_bound_completed", -1)
            sh["bound_completed"] = bc if sh["bound_completed"] is None else min(sh["bound_completed"], bc)
            bp = e.get("executions_by_preemptions", [])
            cur = sh["executions_by_preemptions"]
            for i, v in enumerate(bp):
                if i < len(cur):
                    cur[i] += v
                else:
                    cur.append(v)
            per.append({"name": label, "programs": e.get("programs", 0), "executions": js.get("evaluations", 0),
                        "states": e.get("states", 0), "transitions": e.get("transitions", 0),
                        "contended_executions": e.get("executions_with_contended_mutex", 0),
                        "distinct_outcome_classes": js.get("distinct_nontrivial", 0),
                        "preemption_bound": e.get("preemption_bound"), "no_bound_needed": e.get("no_bound_needed"),
                        "alternatives_pruned_by_bound": e.get("alternatives_pruned_by_bound"),
                        "max_executions_per_program": e.get("max_executions_per_program"),
                        "lock_calls": e.get("lock_calls"), "exhaustive": js.get("exhaustive"),
                        "executions_per_s": e.get("executions_per_s"), "wall_s": js.get("wall_s")})
            for s_ in js.get("samples", [])[:2]:
                if len(samples) < 10:
                    samples.append({"config": label, "case": s_})
        for v in js.get("violations", []):
            tag = v["tag"]
            fp = f"{H}|{tag}"
            kf = vlib.match_known(prop, fp)
            if kf:
                known.append(f"KNOWN-FINDING: property={prop} {kf['what']}")
                continue
            if tag in viol:
                viol[tag]["also_in"].append(label)
                continue
            if is_tsan:
                arg = json.dumps(v["input"])
                if _replay_tsan(arg, quiet=True) != 1:  # confirmation in a fresh process (TSan reports a stack pair only once per process)
                    tsan_info.setdefault("unconfirmed_reports", []).append(v["detail"])
                    continue
                rec = {"property": prop, "kind": "command", "tag": tag, "detail": v["detail"], "input": v["input"],
                       "fingerprint": fp, "argv": [sys.executable, "scripts/check_C13.py", "--replay-tsan", arg]}
            elif j["h"] == LL_NAME:
                arg = json.dumps(v["input"])
                rec = {"property": prop, "kind": "command", "tag": tag, "detail": v["detail"], "input": v["input"], "cfg": j["cfg"],
                       "fingerprint": fp, "argv": [sys.executable, "scripts/check_C13.py", "--replay-ll", arg, j["cfg"]]}
            else:
                rec = {"property": prop, "kind": "enum", "harness": H, "cfg": j["cfg"], "args": "", "tag": tag,
                       "detail": v["detail"], "input": v["input"], "fingerprint": fp}
            rec["also_in"] = []
            viol[tag] = rec
    # vacuity: every forwarding target must have been entered, and the lock must have been contended
    if not only:
        for m in ("allocate_node", "allocate_array", "deallocate_node", "deallocate_array", "try_allocate_node",
                  "try_allocate_array", "try_deallocate_node", "try_deallocate_array", "max_node_size", "max_array_size",
                  "max_alignment"):
            if members.get(m, 0) == 0:
                errors.append(f"vacuous: member {m} of the wrapped allocator was never entered")
        if contended == 0 and not viol:
            errors.append("vacuous: no execution ever found the mutex held")
    wall = time.time() - t0
    bounds = {k: ("none needed: every schedule enumerated" if v["all_schedules_of_every_program"]
                  else f"<= {v['bound_completed']} preemptions completed") for k, v in shapes.items()}
    cov = {
        "states": states, "transitions": trans, "traces_validated_against_impl": traces,
        "samples": samples or [{"note": "none"}],
        "exhaustive": bool(exhaustive and not errors),
        "preemption_bound_completed": bounds,
        "per_shape": shapes,
        "executions_with_contended_mutex": contended,
        "allocator_entries_by_member": members,
        "per_configuration": per,
        "tsan_side_run": tsan_info,
        "selftest_of_scheduler_and_oracle": selftest,
        "harness_errors": errors[:20],
        "known_findings_hit": sorted(set(known)),
        "explanation": "states = distinct (thread progress, mutex owner, allocator state) tuples seen at choice points, summed over "
                       "programs; transitions = scheduling decisions executed; traces = complete schedules, each executed on a fresh "
                       "real allocator_storage object with fresh threads. Oracle per schedule: every entry into the wrapped allocator "
                       "happens with the instrumented mutex owned by the calling thread, never two threads inside, final allocator "
                       "state == number of calls (split read-modify-write: a missing lock is a lost update), all returned "
                       "addresses distinct, mutex free at the end with #lock == #unlock and no unlock by a non-owner, no deadlock; "
                       "stateless allocator: no mutex object and no lock call at all (direct and reference storage). alloc 'tracked-sf' / "
                       "'tracked-es' = tracked_allocator<tracker with state, stateless allocator> / <empty tracker, stateful allocator>, "
                       "'fallback-sf' / 'fallback-fs' = fallback_allocator<stateless default, stateful fallback> / the reverse, 'adapter' = "
                       "allocator_adapter<stateful allocator> as the wrapped allocator, 'handle' = threads with odd id work through an "
                       "any_allocator_reference created from the shared storage object: "
                       "tracker callbacks AND inner allocator members are owner-checked, the part with state does the split "
                       "read-modify-write. '+empty-mutex-type' = Mutex is an empty class locking a process-wide mutex. alloc 'empty' = an "
                       "empty class declaring is_stateful = true_type (state global): judged exactly like 'stateful'. shape 'll' = "
                       "heap/malloc/new/virtual_memory allocator used concurrently without a lock, scheduling point before every "
                       "atomic operation of their library TUs (atomic shim): the shared leak balance must return to its start "
                       "value in every schedule.",
    }
    recs = list(viol.values())
    vlib.write_evidence(prop, tier, "model_checking", cov, wall, len(recs), assumptions=[
        "sequentially consistent interleavings at the scheduling points lock/unlock/allocator entry; plain-access races are "
        "left to the ThreadSanitizer side run (sampling)",
        "Mutex types reached: the instrumented mutex (behavioural interface of Mutex) and std::mutex (side run); 2, 3 and "
        "(thorough) 4 threads",
        "type-erased reference storage is stateful by construction, so it locks for a stateless allocator too; the "
        "'stateless takes no lock' clause is checked for direct_storage and reference_storage",
    ])
    for l in sorted(set(known)):
        print(l)
    for e in errors[:10]:
        log("HARNESS ERROR: " + e)
    rate = traces / max(1e-9, sum(p["wall_s"] or 0 for p in per))
    log(f"{prop} {tier}: {len(per)} scheduler runs, {sum(p['programs'] for p in per)} programs, {traces} schedules executed "
        f"({rate:.0f}/s per core), {states} states, {trans} transitions, tsan: {tsan_info}, {len(recs)} violation(s), {wall:.1f}s")
    if recs:
        for rec in recs:
            rp = vlib.write_replay(prop, rec)
            print(f"VIOLATION property={prop} replay={rp}")
            log(f"  [{rec['tag']}] {rec['detail']}\n  input: {json.dumps(rec['input'])[:400]}")
        return 1
    return 3 if errors else 0


def register(CHECKS):
    CHECKS["C13"] = check


if __name__ == "__main__":
    sys.path.insert(0, os.path.dirname(os.path.abspath(__file__)))
    if len(sys.argv) >= 3 and sys.argv[1] == "--replay-tsan":
        sys.exit(_replay_tsan(sys.argv[2]))
    if len(sys.argv) >= 3 and sys.argv[1] == "--replay-ll":
        sys.exit(_replay_ll(sys.argv[2], sys.argv[3] if len(sys.argv) > 3 else "dbg"))
    print("usage: check_C13.py --replay-tsan '<json>'")
    sys.exit(2)
