"""C20 - object-creating helpers are exception safe at every constructor failure point.
Fault enumeration: harness/h_exc.cpp runs every (allocator fixture, helper / joint_array constructor form,
array length 0..16, failing construction index 1..points + success run) on the real library code."""

ALLOCS = ["log", "pool", "pool16", "stack", "heap"]
SAN = ["-fsanitize=address,undefined", "-fno-sanitize-recover=undefined"]


def check(prop, tier, only):
    import os
    import checks
    import vlib
    cfgs = ["rwd", "dbg"] if tier == "quick" else ["rel", "rwd", "dbg", "dbg16"]
    jobs = [checks.J("h_exc", cfg, f"--alloc {a}", name=f"exc/{a}[{cfg}]") for cfg in cfgs for a in ALLOCS]
    # optimised twin (-O2 via pragma inside the TU, so --replay rebuilds it identically): only the helpers that create
    # and release the object inside one function, all fixtures in one process
    jobs += [checks.J("h_exc_o2", cfg, "--alloc all", name=f"exc-O2/scoped[{cfg}]") for cfg in cfgs]
    note = ("every (allocator fixture: instrumented logging RawAllocator, tracked memory_pool with 512- and 16-byte nodes, "
            "tracked memory_stack, tracked heap_allocator) x (allocate_unique<T> default/value/copy/move, its any_allocator "
            "variant, allocate_unique<T[]>(n) typed and type-erased, allocate_shared<T> default/value/copy/move, "
            "allocate_joint / joint_ptr constructor with each joint_array constructor form (size; size+value; "
            "initializer_list; iterator range copying / converting / moving; copy; move), clone_joint, and the same eight "
            "joint_array constructions stand-alone over an existing joint object; joint types taking an element BY VALUE "
            "(lvalue / const lvalue / rvalue argument, with further arguments, and clone_joint through a converting "
            "by-value parameter): the parameter's copy/move fails before the joint_type base exists; value categories x "
            "mixed noexcept specifications for unique/shared; 'scoped' joint helpers that create and release inside one "
            "function, additionally built with -O2 as h_exc_o2) x n in 0..16 x failing construction "
            "k in 1..n (+1 = body of the joint type's constructor) and the success run. Oracle per run: per-object "
            "construct/destruct log keyed by address + serial (each constructed element destroyed exactly once, no "
            "destructor on storage without a live element, nothing alive after the throw), allocator call log "
            "(every release answers an outstanding block with the same kind node/array, count, size, alignment; nothing "
            "outstanding after the throw), the caught exception is the very object thrown (address, tag, dynamic type, no "
            "copies), a follow-up node and array allocation on the same allocator succeeds; on success exactly n "
            "constructions, after release exactly n destructions and one matching deallocation.")
    assumptions = [
        "The heap fixture runs every case in a forked child (a wrong release can corrupt the process heap); a child that "
        "dies is reported as run-process-died.",
        "Element type: 16 bytes, alignment 8, potentially-throwing default/value/copy/move constructors "
        "(plus an all-noexcept twin for the no-rollback path of allocate_unique<T[]>, success run only).",
        "Type-erased variants are not run on tracked_allocator<_, heap_allocator>: that combination does not compile "
        "(tracked_allocator declares try_* members over a non-composable allocator); unrelated to C20.",
        "Requests larger than a pool's node size are excluded (documented precondition), counted in excluded_by_rule.",
        "Restoration of the joint stack's top after a failed stand-alone joint_array is counted as an observation, "
        "not asserted (the statement speaks about the memory obtained for the object).",
    ]
    rc_san = 0
    if tier == "thorough" and os.environ.get("VERIF_C20_SAN", "1") != "0":
        # supplementary pass: same enumeration under ASan+UBSan (instrumented allocator and heap only; the
        # deciding oracle is the log). Its evidence file is overwritten by the deciding pass below.
        sjobs = [checks.J("h_exc", cfg, f"--alloc {a}", name=f"exc-san/{a}[{cfg}]") for cfg in ("rwd", "dbg")
                 for a in ("log", "heap", "stack")]
        rc_san = checks.run_enum_check(prop, tier, sjobs, level="fault_enumeration", only=only, note=note,
                                       assumptions=assumptions,
                                       harness_kw={"extra": SAN, "lib_extra": SAN, "lib_tag": "-san", "name": "h_exc_san"})
        if rc_san == 1:
            return 1
        try:
            import json
            ev = json.load(open(os.path.join(vlib.EVID, prop + ".json")))
            note += (f" Supplementary ASan+UBSan pass (log, heap, stack fixtures in rwd+dbg): "
                     f"{ev['coverage']['evaluations']} runs, {ev['violations']} violations, "
                     f"{len(ev['coverage']['harness_errors'])} sanitizer/harness errors.")
        except Exception:
            pass
    rc = checks.run_enum_check(prop, tier, jobs, level="fault_enumeration", only=only, note=note,
                               assumptions=assumptions)
    return rc or rc_san


def register(CHECKS):
    CHECKS["C20"] = check
