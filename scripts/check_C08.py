"""C08 - composable deallocation recognises exactly its own memory.

harness/h_compose.cpp (+ compose_common/sib/comp.hpp): stateless enumeration (every sequence replayed from scratch on
fresh REAL objects) of
 part 1 "sib":  ALL operation sequences up to depth 4 (quick) / 5 (thorough) over three sibling composable allocators of
                every kind (memory_pool<node|array|small>, memory_pool_collection<..,identity|log2>, memory_stack,
                iteration_allocator<2>, mixed) built over ONE first-fit upstream that hands out adjacent blocks, with
                try_deallocate_node/array(A, p, shape) for every allocator A and every live pointer p of every sibling;
 part 2 "comp": ALL sequences up to depth 5 (quick) / 7 (thorough rwd; 6 in rel, dbg) of {allocate node, allocate array x1/x2/x3, release
                any live allocation} on 28 compositions (fallback, nested fallbacks, aligned/tracked/reference/
                type-erased reference/thread_safe layers, binary_segregator) x 8 (+4 extended) leaf configurations (instrumented
                leaves with a call log and real pools/stacks/collections behind them) x {normal, composable} interface.
"""

SIB = ["pool_node", "pool_array", "pool_small", "pool_mixed", "coll_identity", "coll_log2", "stack", "iter",
       "mixed_a", "mixed_b", "mixed_c", "mixed_d"]
# scenarios in which pools / collections / stacks grow to 2-3 upstream blocks inside the bound
GROWING = ["pool_node", "pool_array", "pool_mixed", "coll_log2", "stack", "mixed_a", "mixed_b", "mixed_d"]


def check(prop, tier, only):
    import checks
    import vlib  # noqa: F401

    quick = tier == "quick"
    cfgs = ["rwd", "dbg"] if quick else ["rel", "rwd", "dbg"]
    jobs = []
    for cfg in cfgs:
        shards = 1 if quick else 2
        for place in (("asc", "desc") if cfg == "rel" else ("asc", "desc", "alt")):
            # descending / alternating upstream placement only matters for allocators that take more than one block
            for sc in (SIB if place == "asc" else GROWING):
                for s in range(shards):
                    jobs.append(checks.J("h_compose", cfg, f"--part sib --scen {sc} --place {place} --shard {s} --of {shards}",
                                         name=f"siblings/{sc}/{place}/shard{s}of{shards}[{cfg}]"))
        # doubling block source: the blocks of one allocator have different sizes (ownership must be decided per block; seed C08-N)
        for sc in GROWING:
            for s in range(shards):
                jobs.append(checks.J("h_compose", cfg, f"--part sib --scen {sc} --place asc --grow 1 --shard {s} --of {shards}",
                                     name=f"siblings/{sc}/asc-grow/shard{s}of{shards}[{cfg}]"))
        # thorough: depth 7 in rwd (what the repository's tests run), 6 in rel and dbg (the composition layers are header
        # templates without configuration dependent code; only the real pools behind the leaves differ)
        d = 5 if quick else (7 if cfg == "rwd" else 6)
        groups = 6 if quick else 16
        for g in range(groups):
            jobs.append(checks.J("h_compose", cfg, f"--part comp --group {g} --groups {groups} --depth {d}",
                                 name=f"compositions/asc/group{g}of{groups}/depth{d}[{cfg}]"))
        # move systems: two objects of the same composition type with aligned_allocator layers of different minimum alignment,
        # x = std::move(y) / y = std::move(x) in the alphabet, ownership oracle continues across the move
        dm = 4 if quick else 5
        jobs.append(checks.J("h_compose", cfg, f"--part comp --dual 1 --depth {dm}", name=f"compositions/move-assignment/depth{dm}[{cfg}]"))
        for place in ("desc", "alt"):
            groups = 1 if quick else 4
            for g in range(groups):
                jobs.append(checks.J("h_compose", cfg, f"--part comp --place {place} --group {g} --groups {groups} --depth {d}",
                                     name=f"compositions/{place}/group{g}of{groups}/depth{d}[{cfg}]"))
    note = ("Bounded model checking of the real objects by exhaustive sequence enumeration (no state is carried over: every "
            "sequence is executed from scratch on fresh allocators over a deterministic first-fit upstream arena whose blocks are "
            "adjacent; three placement policies: lowest free address, highest free address (every later block BELOW the earlier ones), per "
            "owner alternating lowest/highest (third block between the first two)). next_iteration() is part of the alphabet for "
            "iteration_allocator<2|3>: an allocation leaves the model's live set after N calls, until then try_deallocate must say true. "
            "Part 1 oracle (shadow model of who handed out which pointer): try_deallocate_*(A,p,shape) returns true iff A "
            "handed p out; on false the digest of the whole upstream memory, of all three allocator objects and capacity_left / "
            "pool_capacity_left are unchanged; on true the capacity grows by exactly the released nodes (pools, collections) and the "
            "range leaves the live set; every pointer returned by an allocator lies in an upstream block owned by it and is disjoint "
            "from all live ranges; live allocations keep their byte pattern after every step; foreign pointers include raw upstream "
            "nodes and sibling allocations that start exactly at the end of a block of A or end exactly at its start; stacks and "
            "pools are made to grow so that own pointers in older blocks are asked for. Part 2 oracle (leaf call logs): each "
            "allocation is served by exactly one leaf and the pointer is passed through; each release is delivered exactly once, to "
            "the leaf that served it, with the call shape (node/array, count, size, alignment) that leaf saw at allocation; a leaf "
            "never gets a mandatory deallocate for memory it did not serve; a real pool/stack/collection behind a leaf answers "
            "try_deallocate true for its own and false for foreign memory; when everything is released every leaf is back at full "
            "capacity; move systems: after x = std::move(y) the memory handed out through y is released through x under the same oracle; "
            "during a composable try_ call no leaf's throwing allocate_* is entered, nothing grows, nothing throws / terminates (C03 tags try-*); "
            "the composable interface of a composition returns true for its own and false for an outsider pointer; every "
            "tracked_allocator layer has an instrumented Tracker: exactly one on_*_allocation per allocation served below it, exactly one "
            "on_*_deallocation per release accepted below it, none for a refused try_deallocate, balanced when everything is released. "
            "abort/crash/hang inside a contract-respecting sequence is a violation. Every violation is re-run once before it is reported.")
    assumptions = [
        "x86-64, max_align 16: upstream blocks are multiples of 16 bytes so that consecutive blocks are exactly adjacent",
        "sequences are exhaustive up to the stated depth over the stated alphabet and the listed scenarios (parameters of the sibling "
        "allocators and leaf capacities are fixed per scenario), not over all node sizes / block sizes",
        "memory_stack / iteration_allocator never release individual allocations: for them 'true' only removes the range from the "
        "model's live set; arrays are only requested from pool types that document array support",
        "through any_allocator_reference an array of count 1 is forwarded as a node by design (reference_storage<any_allocator>: "
        "'count 1 means node'); the oracle compares the release shape with the shape the leaf saw at allocation, not with the "
        "user's request",
    ]
    return checks.run_enum_check(prop, tier, jobs, level="exploration", only=only, note=note, assumptions=assumptions)


def register(CHECKS):
    CHECKS["C08"] = check
