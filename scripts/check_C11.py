"""C11 - joint allocations stay inside the object's single block and it is freed whole.

Exhaustive enumeration (harness/joint_body.hpp, compiled as h_joint_p0..p3, a quarter of the 675 generated
joint types each): every joint type x every object (element counts x additional sizes around the exact fit)
x fixed life cycles, plus ALL operation sequences up to depth 3 (quick) / 4 (thorough) of a 25-operation
alphabet over two joint_ptr slots bound to two distinct instrumented upstream allocators."""

PARTS = 4  # h_joint_p0 .. h_joint_p3


def check(prop, tier, only):
    import checks
    import vlib  # noqa: F401

    quick = tier == "quick"
    cfgs = ["rwd", "dbg"] if quick else ["rel", "rwd", "dbg", "dbg16"]
    shards = 2 if quick else 4
    jobs = []
    for cfg in cfgs:
        for k in range(PARTS):
            for s in range(shards):
                # depth of the history enumeration: 3 in quick; thorough: 4 in the two configurations that differ most
                # (rwd: fill only, dbg: assertions + fill), 3 in rel and dbg16 (fence size is not used by joint memory)
                depth = 3 if quick or cfg in ("rel", "dbg16") else 4
                jobs.append(checks.J(f"h_joint_p{k}", cfg, f"--part {s} --of {shards} --depth {depth}",
                                     name=f"joint/types{k}mod{PARTS}/shard{s}of{shards}/depth{depth}[{cfg}]"))
    # extension TU h_joint_x: (a) element constructors that throw at every position of every joint_array / vector
    # construction form, (b) all histories of growing vectors / raw joint_allocator nodes in every release order /
    # arrays on the joint memory of one object
    for cfg in cfgs:
        jobs.append(checks.J("h_joint_x", cfg, "--mode throw", name=f"joint/throwing-constructors[{cfg}]"))
        gdepth = 6 if quick or cfg in ("dbg", "dbg16") else 7
        gshards = 8 if gdepth == 6 else 30
        for s in range(gshards):
            jobs.append(checks.J("h_joint_x", cfg, f"--mode grow --part {s} --of {gshards} --depth {gdepth}",
                                 name=f"joint/grow/shard{s}of{gshards}/depth{gdepth}[{cfg}]"))
    # container copy / move assignment between the vector members of TWO joint objects, growth, reset of either object
    for cfg in cfgs:
        cdepth = 5 if quick else 6
        cshards = 2 if quick else 12
        for s in range(cshards):
            jobs.append(checks.J("h_joint_x", cfg, f"--mode cross --part {s} --of {cshards} --depth {cdepth}",
                                 name=f"joint/cross-object-assignment/shard{s}of{cshards}/depth{cdepth}[{cfg}]"))
    # every way a joint_ptr lets go of its object, for joint types that never touch their joint memory as well, compiled with -O2
    # (the harness's ledger keeps the block address from escaping: found D28, reset() reading the destroyed object)
    for cfg in cfgs:
        jobs.append(checks.J("h_jointlife", cfg, "", name=f"joint/release-paths-O2[{cfg}]"))
    note = ("Every release path of joint_ptr (reset, destructor, move assignment from empty / from another object, move construction, clone, "
            "swap) x joint types that use / never touch their joint memory x additional size 0..160/1024, compiled with -O2: block given back "
            "once with its size and alignment. "
            "Real joint_ptr/joint_allocator/joint_array code driven through generated joint types (3 member layouts: "
            "two joint_arrays; joint_array + vector<_, joint_allocator>; vector first + joint_array; 15 x 15 element "
            "(size, alignment) pairs from {1,2,4,8,16}^2 with size a multiple of the alignment). Oracle per step: the "
            "instrumented upstreams A and B (blocks between guard bytes, A places blocks at 0 mod 16, B at 8 mod 16) must see "
            "exactly one allocation of sizeof(T)+additional/alignof(T) per object and exactly one release with the same "
            "size/alignment on the SAME upstream; every pointer a member holds lies in [object+sizeof(T), block end), is "
            "aligned, pieces are disjoint; every element constructor runs inside the joint memory of a live block; a "
            "request that does not fit the aligned-bump reference model must throw out_of_fixed_memory, release the block "
            "and leave everything else intact; element constructions/destructions balance; contents of an object (e.g. a "
            "clone) stay intact when any other object is destroyed; get_allocator() of an owning joint_ptr is the upstream "
            "its block came from. Extension: joint types with element types whose k-th construction throws (every k, all "
            "construction forms incl. initializer_list, copy and move with allocator) must leave every constructed element "
            "destroyed exactly once, no destructor on storage without a live element, the block released once with its size; "
            "and all histories (depth 6/7) of vector growth 1,2,4,8,16 / shrink_to_fit / joint_allocator::allocate_node of "
            "1..24 bytes / deallocate_node of any live raw node / joint_array on ONE object's joint memory must keep all live "
            "pieces inside the block, aligned, pairwise disjoint and their contents intact. Cross-object: all histories (depth "
            "5/6) of X.v = std::move(Y.v) / X.v = Y.v in both directions between the vector members of TWO joint objects (targets "
            "with and without room), growth and reset of either object: every buffer lies in ITS object's block, "
            "get_allocator() of every container still refers to its own object's joint memory, an assignment that does not fit "
            "throws, contents intact after the other object is released.")
    assumptions = [
        "x86-64, libstdc++: which requests a vector<_, joint_allocator> makes (none for an empty buffer, exactly n elements "
        "for reserve(n) / vector(n, alloc) / copy or move with an unequal allocator) is part of the reference model",
        "histories are exhaustive up to the stated depth only on 2 (quick) / 5 (thorough) representative objects per joint "
        "type; all other objects are taken through 4 fixed life cycles",
        "a spurious out_of_fixed_memory (request fits the reference model but the library throws) is reported as a harness "
        "error (exit 3), not as a C11 violation, because the statement only demands that requests which do not fit throw",
    ]
    return checks.run_enum_check(prop, tier, jobs, level="exploration", only=only, note=note, assumptions=assumptions)


def register(CHECKS):
    CHECKS["C11"] = check
