"""Job lists of the two exhaustive input grids (no check of their own; the C18 / C02 checks append them):

   jobs_minblock(tier) -> harness/h_minblock.cpp  (C18 part a: min_block_size grid, stacks/arenas byte sizes)
   jobs_sweep(tier)    -> harness/h_sweep.cpp     (C02 part b: single-step request sweep)

Both return lists of checks.J(...) for checks.run_enum_check(prop, tier, jobs, level="exploration")."""


def _cfgs(tier):
    return ["rwd", "dbg"] if tier == "quick" else ["rel", "rwd", "dbg", "dbg16"]


def jobs_minblock(tier, strict_next=False):
    """C18 (a). strict_next=True additionally demands next_capacity() == capacity of an identical block in whole nodes
    (violation tag next-capacity-mismatch); off by default because the unchanged tree over-reports for small-node pools
    from ~1500 nodes on (small_free_memory_list::usable_size ignores the inter-chunk alignment buffer) - the thorough
    grid would fire; the quick grid (<= 1100 nodes) is clean and would then detect the DESIGN section 4 C18 mutant."""
    import checks
    jobs = []
    sn = " --strict_next 1" if strict_next else ""
    for cfg in _cfgs(tier):
        if tier == "quick":
            # 64 x 1100 full grid + boundary counts for node sizes 65..128; 8 processes per configuration
            parts = 8
            for i in range(parts):
                jobs.append(checks.J("h_minblock", cfg, f"--part pools --ns_stride {parts} --ns_off {i}{sn}",
                                     name=f"minblock/pools[{cfg}] node sizes = {i} mod {parts}"))
        else:
            # 512 x 2000 full grid; cost grows with the node size, so the node sizes are dealt round-robin
            parts = 16
            for i in range(parts):
                jobs.append(checks.J("h_minblock", cfg, f"--part pools --ns_stride {parts} --ns_off {i}{sn}",
                                     name=f"minblock/pools[{cfg}] node sizes = {i} mod {parts}"))
        jobs.append(checks.J("h_minblock", cfg, "--part stacks", name=f"minblock/stacks+arenas[{cfg}] bytes 1..4096"))
    return jobs


# sweep kinds with the number of processes each is dealt over (cost measured per kind; the primary variable -
# request size, pool node size or collection max node size - is dealt round-robin because cost grows with it)
_SWEEP_PARTS_QUICK = {
    "pool_node": 1, "pool_array": 1, "pool_small": 1,
    "coll_node_id": 1, "coll_array_id": 1, "coll_small_id": 1, "coll_node_log2": 1, "coll_array_log2": 1, "coll_small_log2": 1,
    "stack": 2, "temp": 2, "aligned_stack": 2, "iter": 6, "static": 8,
    "heap": 1, "malloc": 1, "new": 1, "virt": 1, "aligned_heap": 1, "aligned_virt": 2,
}
_SWEEP_PARTS_THOROUGH = {
    "pool_node": 1, "pool_array": 1, "pool_small": 2,
    "coll_node_id": 4, "coll_array_id": 4, "coll_small_id": 1, "coll_node_log2": 4, "coll_array_log2": 4, "coll_small_log2": 1,
    "stack": 4, "temp": 6, "aligned_stack": 4, "iter": 16, "static": 16,
    "heap": 1, "malloc": 1, "new": 1, "virt": 1, "aligned_heap": 1, "aligned_virt": 4,
}


def jobs_sweep(tier):
    """C02 (b). Violation tags are "<what>@<family>" with what in {null, misaligned, outside-upstream, overlaps-prefill,
    prefill-corrupted, not-writable, unusable-memory, unsupported-accepted, foreign-exception, abort, crash, hang} and family in
    {pool-node, pool-array, coll-node, coll-array, stack, iteration, static, temporary, lowlevel, aligned}; the known-finding
    fingerprint of run_enum_check is "h_sweep|<tag>"."""
    import checks
    parts = _SWEEP_PARTS_QUICK if tier == "quick" else _SWEEP_PARTS_THOROUGH
    jobs = []
    # expensive kinds first so that the pool of 16 workers stays busy until the end
    order = sorted(parts, key=lambda k: -parts[k])
    for kind in order:
        n = parts[kind]
        for cfg in _cfgs(tier):
            for i in range(n):
                args = f"--kind {kind}" + (f" --stride {n} --off {i}" if n > 1 else "")
                jobs.append(checks.J("h_sweep", cfg, args, name=f"sweep/{kind}[{cfg}]" + (f" part {i}/{n}" if n > 1 else "")))
    return jobs
