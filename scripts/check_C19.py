"""C19 - size and alignment arithmetic is correct for every input.

Exhaustive input-domain enumeration (harness/h_arith.cpp): every helper named by the property is called on
the complete small domain and on the boundary classes around every power of two (x all 64 alignments) and
compared with definitional 128-bit references; bucket selection goes through real free_list_array objects
for the three list types and both bucket distributions."""


def check(prop, tier, only):
    import checks
    cfgs = ["rwd", "dbg"] if tier == "quick" else ["rel", "rwd", "dbg", "dbg16"]
    jobs = [checks.J("h_arith", cfg, "", name=f"arith[{cfg}]") for cfg in cfgs]
    # bucket selection is a function of the array's bound as well: after a move assignment / swap between collections with
    # DIFFERENT max_node_size the bucket chosen for a size must still have nodes at least that large (explorer, real collections)
    ex = []
    for cfg in cfgs[:2]:
        for a_, b_ in ((32, 16), (16, 32), (64, 16)):  # (a single-bucket collection is outside the documented block size requirement in fence configurations)
            j = checks.J("h_coll", cfg, f"--type array --buckets log2 --src constant --maxns {a_} --maxns2 {b_} --bs 640 --sizes 8,32,{max(a_, b_)} --L 2 --B 2 --arena 4096 --moves 2",
                         name=f"bucket-selection-after-move/log2 maxns {a_} vs {b_}[{cfg}]", moves=True)
            j["own"] = ["M-inside", "M-freelist", "M-disjoint", "M-maxima"]
            ex.append(j)
        j = checks.J("h_coll", cfg, "--type array --buckets identity --src constant --maxns 12 --maxns2 20 --bs 1280 --sizes 8,12,20 --L 2 --B 2 --arena 8192 --moves 2",
                     name=f"bucket-selection-after-move/identity maxns 12 vs 20[{cfg}]", moves=True)
        j["own"] = ["M-inside", "M-freelist", "M-disjoint", "M-maxima"]
        ex.append(j)
    # "the bucket chosen for a size has nodes at least that large" as a physical fact: the request sweep of C02 over the three
    # collection kinds with identity buckets (every size 1..max at the end of a chunk / block): the node handed out for a size must
    # lie inside upstream memory and must not overlap its neighbours for its full size
    import grids
    for j in grids.jobs_sweep(tier):
        if "/coll_" in j["name"] and "_id" in j["name"]:
            j = dict(j)
            j["only_tags"] = [t + "@" + f for t in ("outside-upstream", "prefill-corrupted", "overlaps-prefill", "not-writable") for f in ("coll-node", "coll-array")]
            jobs.append(j)
    return checks.run_explore_check(
        prop, tier, ex, only=only, enum_jobs=jobs,
        note="explorer part: two memory_pool_collections with different max_node_size, all histories of requests of every bucket size with move construction / "
             "move assignment / swap at every point (M-inside/bucket-too-small: node size of the chosen bucket >= request; M-maxima; M-freelist). "
             "Enumeration part: input-domain enumeration of round_up_to_multiple_of_alignment, align_offset (integer and pointer form), "
             "is_aligned, alignment_for, ilog2, ilog2_ceil, identity/log2 access policies and of "
             "free_list_array<FreeList, AccessPolicy>::get(size).node_size() on real arrays; oracle: least multiple >= x, "
             "least non-negative adjustment, largest power of two dividing the size capped at alignof(max_align_t), "
             "floor/ceiling log2 computed with division and loops in unsigned __int128; bucket: node_size >= size and, for "
             "log2 buckets, node_size < 2*max(size, list minimum node size)",
        assumptions=[
            "the full 2^64 x 64 input space is not enumerated: a complete small domain and boundary classes around every "
            "power of two (from below and from 2^64 downwards) are, as the property's quantifier names them",
            "inputs the functions declare undefined (0 for logarithms, alignment_for and log2 index_from_size) and inputs "
            "whose mathematical result does not fit in size_t are excluded by rule and counted in excluded_by_rule",
            "identity buckets are only built for max_node_size <= 4097 (one list object per size); max_node_size above 2^16 "
            "is exercised for log2 buckets only, with sizes 1..2^16 plus the boundary class instead of every size",
            "alignments are powers of two (documented precondition of every function taking one)",
        ])


def register(CHECKS):
    CHECKS["C19"] = check
