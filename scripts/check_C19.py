"""C19 - size and alignment arithmetic is correct for every input.

Exhaustive input-domain enumeration (harness/h_arith.cpp): every helper named by the property is called on
the complete small domain and on the boundary classes around every power of two (x all 64 alignments) and
compared with definitional 128-bit references; bucket selection goes through real free_list_array objects
for the three list types and both bucket distributions."""


def check(prop, tier, only):
    import checks
    cfgs = ["rwd", "dbg"] if tier == "quick" else ["rel", "rwd", "dbg", "dbg16"]
    jobs = [checks.J("h_arith", cfg, "", name=f"arith[{cfg}]") for cfg in cfgs]
    return checks.run_enum_check(
        prop, tier, jobs, level="exploration", only=only,
        note="input-domain enumeration of round_up_to_multiple_of_alignment, align_offset (integer and pointer form), "
             "is_aligned, alignment_for, ilog2, ilog2_ceil, identity/log2 access policies and of "
             "free_list_array<FreeList, AccessPolicy>::get(size).node_size() on real arrays; oracle: least multiple >= x, "
             "least non-negative adjustment, largest power of two dividing the size capped at alignof(max_align_t), "
             "floor/ceiling log2 computed with division and loops in unsigned __int128; bucket: node_size >= size and, for "
             "log2 buckets, node_size < 2*max(size, list minimum node size)",
        assumptions=[
            "the full 2^64 x 64 input space is not enumerated: a complete small domain and boundary classes around every "
            "power of two (from below and from 2^64 downwards) are, as the property's quantifier names them",
            "inputs the functions declare undefined (0 for logarithms, alignment_for and log2 index_from_size) and inputs "
            "whose mathematical result does not fit in size_t are excluded by rule and counted in excluded_by_rule",
            "identity buckets are only built for max_node_size <= 4097 (one list object per size); max_node_size above 2^16 "
            "is exercised for log2 buckets only, with sizes 1..2^16 plus the boundary class instead of every size",
            "alignments are powers of two (documented precondition of every function taking one)",
        ])


def register(CHECKS):
    CHECKS["C19"] = check
