"""Shared driver machinery for /verif/check: building the library under test from /repo's
working tree, building harnesses, running jobs in parallel, evidence + known findings."""
import concurrent.futures as cf
import glob
import hashlib
import json
import os
import shutil
import subprocess
import sys
import threading
import time

VERIF = os.path.dirname(os.path.dirname(os.path.abspath(__file__)))
REPO = os.environ.get("VERIF_REPO", "/repo")
BUILD = os.environ.get("VERIF_BUILD", os.path.join(VERIF, "build"))
EVID = os.environ.get("VERIF_EVID", os.path.join(VERIF, "evidence"))
REPLAYS = os.path.join(EVID, "replays")
NCPU = os.cpu_count() or 8
CXX = "g++"

# configuration matrix (DESIGN.md 1.1)
CONFIGS = {
    #        ASSERT FILL FENCE LEAK PTR DD  TSM
    "rel":   (0, 0, 0, 0, 0, 0, 2),
    "rwd":   (0, 1, 0, 1, 1, 0, 2),
    "dbg":   (1, 1, 8, 1, 1, 1, 2),
    "dbg16": (1, 1, 16, 1, 1, 1, 2),
    "chk":   (0, 1, 8, 1, 1, 1, 2),   # checks on, assertions off (handler reachable instead of assert)
    "tm1":   (0, 1, 0, 1, 1, 0, 1),
}

BASE_DEFS = ["-DFOONATHAN_MEMORY=1", "-DFOONATHAN_MEMORY_VERSION_MAJOR=0",
             "-DFOONATHAN_MEMORY_VERSION_MINOR=7", "-DFOONATHAN_MEMORY_VERSION_PATCH=4"]


def log(*a):
    print(*a, file=sys.stderr, flush=True)


def sh(cmd, **kw):
    return subprocess.run(cmd, shell=isinstance(cmd, str), stdout=subprocess.PIPE,
                          stderr=subprocess.STDOUT, text=True, **kw)


_repo_hash = None


def repo_hash():
    """hash of everything the build depends on in /repo's working tree"""
    global _repo_hash
    if _repo_hash is None:
        h = hashlib.sha256()
        for sub in ("src", "include", "cmake"):
            for root, dirs, files in sorted(os.walk(os.path.join(REPO, sub))):
                dirs.sort()
                for f in sorted(files):
                    p = os.path.join(root, f)
                    h.update(os.path.relpath(p, REPO).encode())
                    with open(p, "rb") as fh:
                        h.update(fh.read())
        _repo_hash = h.hexdigest()[:16]
    return _repo_hash


def cfg_dir(cfg):
    """directory holding config_impl.hpp (+ a stub container_node_sizes_impl.hpp) for cfg"""
    d = os.path.join(BUILD, "cfg", cfg)
    os.makedirs(d, exist_ok=True)
    a, fill, fence, leak, ptr, dd, tsm = CONFIGS[cfg]
    txt = f"""#ifndef FOONATHAN_MEMORY_IMPL_IN_CONFIG_HPP
#error "do not include this file directly, use config.hpp"
#endif
#include <cstddef>
#define FOONATHAN_MEMORY_CHECK_ALLOCATION_SIZE 1
#define FOONATHAN_MEMORY_IMPL_DEFAULT_ALLOCATOR heap_allocator
#define FOONATHAN_MEMORY_DEBUG_ASSERT {a}
#define FOONATHAN_MEMORY_DEBUG_FILL {fill}
#define FOONATHAN_MEMORY_DEBUG_FENCE {fence}
#define FOONATHAN_MEMORY_DEBUG_LEAK_CHECK {leak}
#define FOONATHAN_MEMORY_DEBUG_POINTER_CHECK {ptr}
#define FOONATHAN_MEMORY_DEBUG_DOUBLE_DEALLOC_CHECK {dd}
#define FOONATHAN_MEMORY_EXTERN_TEMPLATE 1
#define FOONATHAN_MEMORY_TEMPORARY_STACK_MODE {tsm}
"""
    p = os.path.join(d, "config_impl.hpp")
    if not os.path.exists(p) or open(p).read() != txt:
        open(p, "w").write(txt)
    return d


def inc_flags(cfg, node_sizes_dir=None):
    fl = []
    if node_sizes_dir:
        fl += ["-I", node_sizes_dir]
    fl += ["-I", cfg_dir(cfg), "-I", os.path.join(REPO, "include"),
           "-I", os.path.join(REPO, "include/foonathan/memory"), "-I", os.path.join(REPO, "src")]
    return fl


def _prune(dirpath, keep):
    """remove sibling cache entries that do not belong to the current tree hash"""
    if not os.path.isdir(dirpath):
        return
    for e in os.listdir(dirpath):
        if e != keep and not e.startswith("."):
            shutil.rmtree(os.path.join(dirpath, e), ignore_errors=True)


def build_lib(cfg, extra=(), tag="", pre_inc=()):
    """compile /repo/src/**/*.cpp for cfg into a static library; returns path (cached by tree hash)"""
    key = hashlib.sha256((repo_hash() + cfg + " ".join(extra) + " ".join(pre_inc)).encode()).hexdigest()[:16]
    base = os.path.join(BUILD, "lib", cfg + tag)
    d = os.path.join(base, key)
    lib = os.path.join(d, "libfm.a")
    if os.path.exists(lib):
        return lib
    os.makedirs(base, exist_ok=True)
    import fcntl
    with open(os.path.join(base, ".lock"), "w") as lockf:
        fcntl.flock(lockf, fcntl.LOCK_EX)  # several harness builds (threads or processes) may want the same library
        try:
            if os.path.exists(lib):
                return lib
            return _build_lib_locked(cfg, extra, pre_inc, base, key, d, lib)
        finally:
            fcntl.flock(lockf, fcntl.LOCK_UN)


def _build_lib_locked(cfg, extra, pre_inc, base, key, d, lib):
    _prune(base, key)
    os.makedirs(d, exist_ok=True)
    srcs = sorted(glob.glob(os.path.join(REPO, "src", "*.cpp")) + glob.glob(os.path.join(REPO, "src", "detail", "*.cpp")))
    flags = ["-std=c++17", "-O1", "-g", "-fPIC", "-w"] + BASE_DEFS + list(extra)
    for p in pre_inc:
        flags += ["-I", p]
    flags += inc_flags(cfg, os.path.join(VERIF, "engine", "stub"))

    def one(s):
        o = os.path.join(d, os.path.basename(s).replace(".cpp", ".o"))
        r = sh([CXX] + flags + ["-c", s, "-o", o])
        return (s, o, r.returncode, r.stdout)

    objs = []
    with cf.ThreadPoolExecutor(NCPU) as ex:
        for s, o, rc, out in ex.map(one, srcs):
            if rc != 0:
                raise BuildError(f"library source {s} does not compile in configuration {cfg}:\n{out[-3000:]}")
            objs.append(o)
    r = sh(["ar", "rcs", lib + ".tmp"] + objs)
    if r.returncode != 0:
        raise BuildError("ar failed: " + r.stdout)
    os.rename(lib + ".tmp", lib)
    return lib


class BuildError(Exception):
    pass


def build_harness(src, cfg, extra=(), libs=(), name=None, link_lib=True, wrap_abort=True, lib_extra=(), lib_tag="",
                  node_sizes_dir=None, opt="-O1", lib_pre_inc=()):
    """compile one harness TU against /repo's headers for cfg and link with the library; cached"""
    srcp = os.path.join(VERIF, src)
    h = hashlib.sha256()
    h.update(repo_hash().encode())
    h.update(cfg.encode())
    h.update(" ".join(extra).encode())
    h.update(" ".join(libs).encode())
    h.update(opt.encode())
    for f in sorted(glob.glob(os.path.join(VERIF, "engine", "*")) + glob.glob(os.path.join(VERIF, "harness", "*.hpp")) + [srcp]):
        if os.path.isfile(f):
            h.update(open(f, "rb").read())
    if node_sizes_dir:
        for f in sorted(glob.glob(os.path.join(node_sizes_dir, "*"))):
            h.update(open(f, "rb").read())
    key = h.hexdigest()[:16]
    nm = name or os.path.basename(src).replace(".cpp", "")
    base = os.path.join(BUILD, "bin", nm + "-" + cfg)
    exe = os.path.join(base, key, nm)
    if os.path.exists(exe):
        return exe
    _prune(base, key)
    os.makedirs(os.path.dirname(exe), exist_ok=True)
    cmd = [CXX, "-std=c++17", opt, "-g", "-w", "-fno-access-control"] + BASE_DEFS + list(extra)
    cmd += inc_flags(cfg, node_sizes_dir or os.path.join(VERIF, "engine", "stub"))
    tmp = exe + f".tmp{os.getpid()}.{threading.get_ident()}"
    cmd += ["-I", VERIF, srcp, "-o", tmp]
    if link_lib:
        cmd += [build_lib(cfg, extra=lib_extra, tag=lib_tag, pre_inc=lib_pre_inc)]
    if wrap_abort:
        cmd += ["-Wl,--wrap=abort"]
    cmd += list(libs) + ["-pthread"]
    r = sh(cmd)
    if r.returncode != 0:
        raise BuildError(f"harness {src} does not compile in configuration {cfg}:\n{r.stdout[-4000:]}")
    os.rename(tmp, exe)
    return exe


def run_jobs(jobs, workers=NCPU, timeout=3600):
    """jobs: list of (label, argv). Runs them in parallel; each job writes JSON to --out <file>.
    Returns list of (label, rc, parsed_json_or_None, output_text)."""
    os.makedirs(os.path.join(BUILD, "out"), exist_ok=True)
    results = [None] * len(jobs)

    def one(i):
        label, argv = jobs[i]
        out = os.path.join(BUILD, "out", f"job-{os.getpid()}-{i}.json")
        if os.path.exists(out):
            os.remove(out)
        try:
            r = subprocess.run(argv + ["--out", out], stdout=subprocess.PIPE, stderr=subprocess.STDOUT, text=True, timeout=timeout)
            rc, txt = r.returncode, r.stdout
        except subprocess.TimeoutExpired as e:
            rc, txt = -999, "timeout"
        js = None
        if os.path.exists(out):
            try:
                js = json.load(open(out))
            except Exception as e:
                txt += f"\n(bad json: {e})"
            os.remove(out)
        return i, (label, rc, js, txt)

    with cf.ThreadPoolExecutor(workers) as ex:
        for i, r in ex.map(one, range(len(jobs))):
            results[i] = r
    return results


# ---------------------------------------------------------------- known findings
def load_known():
    p = os.path.join(VERIF, "known_findings.json")
    if not os.path.exists(p):
        return {"findings": [], "fixed": []}
    return json.load(open(p))


def match_known(prop, fingerprint):
    for f in load_known().get("findings", []):
        if f["property"] == prop and f["fingerprint"] == fingerprint:
            return f
    return None


# ---------------------------------------------------------------- evidence
def write_evidence(prop, tier, level, coverage, wall_s, violations, assumptions=None, extra=None):
    os.makedirs(EVID, exist_ok=True)
    ev = {
        "property_id": prop,
        "tier": tier,
        "seed": int(os.environ.get("VERIF_SEED", "0") or 0),
        "level": level,
        "coverage": coverage,
        "assumptions": assumptions or [],
        "wall_s": round(wall_s, 3),
        "violations": violations,
    }
    if extra:
        ev.update(extra)
    with open(os.path.join(EVID, prop + ".json"), "w") as f:
        json.dump(ev, f, indent=1)
        f.write("\n")
    return ev


def write_replay(prop, payload):
    os.makedirs(REPLAYS, exist_ok=True)
    blob = json.dumps(payload, sort_keys=True)
    hid = hashlib.sha256(blob.encode()).hexdigest()[:12]
    p = os.path.join(REPLAYS, f"{prop}-{hid}.json")
    with open(p, "w") as f:
        json.dump(payload, f, indent=1)
        f.write("\n")
    return p
