"""C09 - adapters forward every request faithfully and release with matching parameters.

harness/h_adapt.cpp is the driver (leaf / tracker logs, oracle, enumeration).  The wrapper compositions are
C++ types: scripts/adapt_gen.py generates them, this module compiles them (in parallel, under the build
directory) into an archive that is linked with the driver.  A composition that is well-formed but does not
compile is found by per-composition compile probes and reported as a violation through the driver."""
import concurrent.futures as cf
import hashlib
import json
import os
import shlex
import shutil
import subprocess
import time

HARNESS = "h_adapt"
GEN_OPT = "-O1"

# feature probes: helpers that are known not to compile today get their own tag (so that any *other* compile
# failure still fails the check)
POLY_ANY_PROBE = """
void adapt_probe_poly_any(leaf<0>& l)
{
    fm::unique_base_ptr<vbase, fm::any_allocator> b = fm::allocate_unique<pval<24, 8>>(fm::any_allocator{}, l);
    b.reset();
}
"""
ANY_TRACKED_PROBE = """
void adapt_probe_any_tracked(fm::tracked_allocator<tracker<0>, fm::memory_resource_allocator>& a)
{
    fm::any_allocator_reference r(a);
    r.deallocate_node(r.allocate_node(8, 8), 8, 8);
}
"""
TAG_POLY_ANY = "polymorphic-deleter-any-allocator-does-not-compile"
TAG_ANY_TRACKED = "any-reference-to-tracked-noncomposable-does-not-compile"
TAG_GENERIC = "composition-does-not-compile"
TAG_TYPED = "typed-helpers-do-not-compile"


def _flags(vlib, cfg):
    return (["-std=c++17", GEN_OPT, "-w", "-fno-access-control"] + vlib.BASE_DEFS
            + vlib.inc_flags(cfg, os.path.join(vlib.VERIF, "engine", "stub")) + ["-I", vlib.VERIF])


def _first_error(txt):
    for line in txt.splitlines():
        if "error" in line:
            return " ".join(line.split())[:300]
    return " ".join(txt.split())[:300]


# composition depth per (tier, configuration)
DEPTH = {("quick", "rwd"): 2, ("quick", "dbg"): 1, ("thorough", "rwd"): 3, ("thorough", "dbg"): 2}


def _depth_for(tier, cfg="rwd"):
    return DEPTH[(tier, cfg)]


def build_set(cfg, tier, log=None):
    """generate + compile the compositions of this tier for cfg; returns dict(archive, failures_file, defs, info)"""
    import vlib
    import adapt_gen as g
    log = log or vlib.log
    t0 = time.time()
    h = hashlib.sha256()
    h.update(vlib.repo_hash().encode())
    h.update((cfg + tier + GEN_OPT).encode())
    for f in (os.path.join(vlib.VERIF, "scripts", "adapt_gen.py"), os.path.join(vlib.VERIF, "harness", "adapt_common.hpp"),
              os.path.abspath(__file__)):
        h.update(open(f, "rb").read())
    key = h.hexdigest()[:16]
    base = os.path.join(vlib.BUILD, "adapt", f"{cfg}-{tier}")
    d = os.path.join(base, key)
    done = os.path.join(d, "done.json")
    if os.path.exists(done):
        return json.load(open(done))
    vlib._prune(base, key)
    shutil.rmtree(d, ignore_errors=True)
    os.makedirs(d)
    flags = _flags(vlib, cfg)

    use = []

    def compile_one(name, src, extra=()):
        p = os.path.join(d, name + ".cpp")
        open(p, "w").write(src)
        o = os.path.join(d, name + ".o")
        rr = vlib.sh([vlib.CXX] + flags[:4] + list(extra) + use + flags[4:] + ["-c", p, "-o", o])
        return name, rr.returncode == 0, rr.stdout, o

    failures = []  # (tag, name, type, error)
    info = {}

    # --- feature probe: unique_base_ptr with any_allocator
    _, ok, out, _ = compile_one("probe_poly_any", g.HEADER + POLY_ANY_PROBE)
    poly_any_ok = ok
    defs = ["-DADAPT_WITH_POLY_ANY"] if ok else []
    if not ok:
        failures.append((TAG_POLY_ANY, "poly_any", "unique_base_ptr<Base, any_allocator> = allocate_unique<Derived>(any_allocator{}, alloc)",
                         _first_error(out)))
    info["poly_any_compiles"] = ok
    _, any_tracked_ok, out, _ = compile_one("probe_any_tracked", g.HEADER + ANY_TRACKED_PROBE)
    if not any_tracked_ok:
        failures.append((TAG_ANY_TRACKED, "any_tracked",
                         "any_allocator_reference to tracked_allocator<Tracker, memory_resource_allocator> (a non-composable allocator)",
                         _first_error(out)))
    info["any_tracked_compiles"] = any_tracked_ok

    # precompiled header (same flags as every generated TU)
    pch_dir = os.path.join(d, "pch")
    os.makedirs(os.path.join(pch_dir, "harness"))
    r = vlib.sh([vlib.CXX] + flags + defs + ["-x", "c++-header", os.path.join(vlib.VERIF, "harness", "adapt_common.hpp"),
                                      "-o", os.path.join(pch_dir, "harness", "adapt_common.hpp.gch")])
    if r.returncode != 0:
        # the adapter headers themselves do not compile: that is a build failure of the tree
        raise vlib.BuildError(f"harness/adapt_common.hpp (adapter headers) does not compile in configuration {cfg}:\n"
                              + r.stdout[-3000:])
    use[:] = ["-I", pch_dir]


    comps = g.enumerate_compositions(_depth_for(tier, cfg))
    clash = [(i, t) for i, t in enumerate(comps) if g.base_clash(t)]
    suspect = [(i, t) for i, t in enumerate(comps) if not g.base_clash(t) and g.any_tracked_noncomposable(t)]
    normal = [(i, t) for i, t in enumerate(comps) if not g.base_clash(t) and not g.any_tracked_noncomposable(t)]
    if any_tracked_ok:
        normal, suspect = sorted(normal + suspect), []
    info.update({"generated": len(comps), "excluded_base_clash": len(clash), "excluded_any_tracked": len(suspect),
                 "max_depth": _depth_for(tier, cfg),
                 "by_depth": {str(k): sum(1 for t in comps if g.depth(t) == k) for k in range(_depth_for(tier, cfg) + 1)}})

    ncpu = vlib.NCPU
    units = []  # (name, source, kind, payload)
    ngroups = max(1, min(len(normal), ncpu * (1 if tier == "quick" else 3)))
    groups = [normal[k::ngroups] for k in range(ngroups)]
    for k, members in enumerate(groups):
        units.append((f"grp{k}", g.group_source(k, members), "group", members))
    small = []  # small typed sets share TUs (4 compositions each)
    for i, t in normal:
        for part in g.typed_parts(t, tier, cfg):
            mask = g.typed_mask(t, poly_any_ok, any_tracked_ok)
            if part == "m":
                small.append((i, t, part, mask))
            else:
                units.append((f"typed{i}_{part}", g.typed_source(i, t, part, mask), "typed", (i, t, part)))
    for k in range(0, len(small), 4):
        units.append((f"typedg{k}", g.typed_group_source(k, small[k:k + 4]), "typedg", small[k:k + 4]))
    # informational: one representative of every inheritance clash pattern
    reps = {}
    for i, t in clash:
        reps.setdefault(g.base_clash(t), (i, t))
    for pat, (i, t) in reps.items():
        units.append((f"clash_{pat}", g.probe_source(i, t), "clash", (pat, i, t)))

    def run_units(us):
        res = {}
        with cf.ThreadPoolExecutor(ncpu) as ex:
            futs = [ex.submit(compile_one, u[0], u[1], defs) for u in us]
            for f in futs:
                name, ok, out, o = f.result()
                res[name] = (ok, out, o)
        return res

    res = run_units(units)
    objs, reg_base, reg_typed, retyped = [], [], [], []
    clash_info = {}
    reprobe = []
    for name, src, kind, payload in units:
        ok, out, o = res[name]
        if kind == "clash":
            pat, i, t = payload
            clash_info[pat] = {"representative": g.name(t), "compiles": ok}
        elif kind == "group":
            if ok:
                objs.append(o)
                reg_base.append(f"adapt_register_group_{name[3:]}")
            else:
                reprobe.append((name, payload))
        elif kind == "typedg":
            if ok:
                objs.append(o)
                reg_typed.append((-1, f"adapt_typedg_{name[6:]}"))
            else:
                retyped.extend(payload)
        elif kind == "typed":
            i, t, part = payload
            if ok:
                objs.append(o)
                reg_typed.append((i, f"adapt_typed_{i}_{part}"))
            else:
                em = g.Emit()
                failures.append((TAG_TYPED, g.name(t), em.go(t)[0] + f" with the typed helpers (value size {part})", _first_error(out)))
    info["clash_patterns"] = clash_info

    # typed groups that failed: compile their members one by one
    if retyped:
        singles = [(f"typed{i}_{part}", g.typed_source(i, t, part, mask), "typed", (i, t, part)) for i, t, part, mask in retyped]
        sres = run_units(singles)
        for sname, src, kind, (i, t, part) in singles:
            ok, out, o = sres[sname]
            if ok:
                objs.append(o)
                reg_typed.append((i, f"adapt_typed_{i}_{part}"))
            else:
                em = g.Emit()
                failures.append((TAG_TYPED, g.name(t), em.go(t)[0] + f" with the typed helpers (value set {part})", _first_error(out)))

    # groups that failed: find the members that do not compile, rebuild the group without them
    bad_idx = set()
    if reprobe:
        probes = []
        for gname, members in reprobe:
            for i, t in members:
                probes.append((f"probe{i}", g.probe_source(i, t), "probe", (i, t)))
        pres = run_units(probes)
        for pname, src, kind, (i, t) in probes:
            ok, out, o = pres[pname]
            if not ok:
                bad_idx.add(i)
                em = g.Emit()
                failures.append((TAG_GENERIC, g.name(t), em.go(t)[0], _first_error(out)))
        regroup = []
        for gname, members in reprobe:
            keep = [(i, t) for i, t in members if i not in bad_idx]
            if keep:
                regroup.append((gname, g.group_source(gname[3:], keep), "group", keep))
        rres = run_units(regroup)
        for gname, src, kind, keep in regroup:
            ok, out, o = rres[gname]
            if ok:
                objs.append(o)
                reg_base.append(f"adapt_register_group_{gname[3:]}")
            else:
                failures.append((TAG_GENERIC, gname, "group of compositions that compile one by one", _first_error(out)))
    reg_typed = [f for i, f in reg_typed if i not in bad_idx]
    info["probed_individually"] = sum(len(m) for _, m in reprobe)

    name, ok, out, o = compile_one("main", g.main_source(reg_base, reg_typed), defs)
    if not ok:
        raise vlib.BuildError("generated registration TU does not compile:\n" + out[-2000:])
    objs.append(o)
    archive = os.path.join(d, "libadapt.a")
    r = vlib.sh(["ar", "rcs", archive] + objs)
    if r.returncode != 0:
        raise vlib.BuildError("ar failed: " + r.stdout)
    ff = os.path.join(d, "compile_failures.tsv")
    with open(ff, "w") as f:
        for rec in failures:
            f.write("\t".join(x.replace("\t", " ").replace("\n", " ") for x in rec) + "\n")
    info.update({"compiled_compositions": len(normal) - len(bad_idx),
                 "translation_units": len(units), "compile_failures": len(failures), "build_wall_s": round(time.time() - t0, 1)})
    out = {"archive": archive, "failures_file": ff, "defs": defs, "info": info, "dir": d}
    json.dump(out, open(done, "w"), indent=1)
    for o in objs:
        if os.path.exists(o):
            os.remove(o)
    shutil.rmtree(pch_dir, ignore_errors=True)
    log(f"C09: built {info['compiled_compositions']} compositions for {cfg}/{tier} in {info['build_wall_s']}s "
        f"({len(units)} TUs, {len(failures)} compile failure(s))")
    return out


def harness_kw(cfg, tier, bs):
    import vlib
    return {"libs": ["-Wl,--whole-archive", bs["archive"], "-Wl,--no-whole-archive", vlib.build_lib(cfg)], "name": f"{HARNESS}_{tier}", "extra": bs["defs"]}


def cfgs_for(tier):
    return ["rwd", "dbg"]


def check(prop, tier, only):
    import checks
    import vlib
    t0 = time.time()
    jobs = []
    exes = {}
    infos = {}
    cfgs = cfgs_for(tier)
    # build the composition archives (one per configuration) and the drivers
    def prepare(cfg):
        bs = build_set(cfg, tier)
        return cfg, bs, vlib.build_harness(f"harness/{HARNESS}.cpp", cfg, **harness_kw(cfg, tier, bs))

    vlib.repo_hash()
    with cf.ThreadPoolExecutor(len(cfgs)) as ex:
        for cfg, bs, exe in ex.map(prepare, cfgs):
            infos[cfg] = bs["info"]
            exes[cfg] = (bs, exe)
    nsh = vlib.NCPU * (2 if tier == "quick" else 4)
    for cfg in cfgs:
        bs, _ = exes[cfg]
        for s in range(nsh):
            args = f"--set {tier} --shard {s}/{nsh} --compile-failures {shlex.quote(bs['failures_file'])}"
            jobs.append(checks.J(HARNESS, cfg, args, name=f"adapt[{cfg}] shard {s}/{nsh}"))
    # aligned_allocator in detail (all four allocation members, misaligned leaf): also registered under C02
    for cfg in cfgs:
        jobs.append(checks.J("h_alignad", cfg, "", name=f"alignad[{cfg}]"))
    # run_enum_check builds per (harness, cfg) with one harness_kw: give it a build function that knows the cfg
    orig = vlib.build_harness

    def build(src, cfg, **kw):
        if src == f"harness/{HARNESS}.cpp" and cfg in exes:
            return exes[cfg][1]
        return orig(src, cfg, **kw)

    vlib.build_harness = build
    try:
        note = ("exhaustive enumeration of wrapper compositions (generated types, depth <= %d) x parameter sets x interfaces x "
                "request shapes / operation sequences on the real adapters over instrumented leaf allocators; oracle on the leaf and "
                "tracker logs. build: %s" % (_depth_for(tier, "rwd"), json.dumps(infos)))
        rc = checks.run_enum_check(prop, tier, jobs, level="exploration", only=only, note=note,
                                   assumptions=["single threaded: thread_safe_allocator is exercised for forwarding only (locking is C13)",
                                                "requests respect the documented preconditions: node size <= max_node_size(), alignment <= "
                                                "max_alignment() of the composition, min_alignment <= max_alignment() of the wrapped allocator, "
                                                "composable and throwing interface are not mixed on one object",
                                                "binary adapters: one child ranges over all compositions of the previous depth, the other "
                                                "children are leaves; compositions in which an adapter type would derive twice from the same "
                                                "base class (C++ rejects them) are not generated"])
    finally:
        vlib.build_harness = orig
    vlib.log(f"C09 total {time.time() - t0:.1f}s")
    return rc


def replay_enum(rec, orig):
    """./check C09 --replay: rebuild the archive the record was made with, then run the driver on the one case"""
    import vlib
    import adapt_gen as g
    if rec.get("harness") != HARNESS:
        return orig(rec)
    args = shlex.split(rec["args"])
    tier = args[args.index("--set") + 1] if "--set" in args else "quick"
    cfg = rec["cfg"]
    inp = rec["input"]
    print("expected :", rec["tag"], "-", rec["detail"])
    if isinstance(inp, str) and inp.startswith("probe:"):
        what = inp[6:]
        flags = _flags(vlib, cfg)
        d = os.path.join(vlib.BUILD, "adapt", "replay")
        os.makedirs(d, exist_ok=True)
        src = None
        if what == "poly_any":
            src = g.HEADER + POLY_ANY_PROBE
        elif what == "any_tracked":
            src = g.HEADER + ANY_TRACKED_PROBE
        else:
            for i, t in enumerate(g.enumerate_compositions(_depth_for(tier, cfg))):
                if g.name(t) == what:
                    src = g.probe_source(i, t)
        if src is None:
            print("unknown probe", what)
            return 2
        p = os.path.join(d, "probe.cpp")
        open(p, "w").write(src)
        cmd = [vlib.CXX] + flags + ["-c", p, "-o", os.path.join(d, "probe.o")]
        print("compiling:", " ".join(cmd))
        r = vlib.sh(cmd)
        if r.returncode != 0:
            print("\n".join(l for l in r.stdout.splitlines() if "error" in l)[:3000])
            print("VIOLATION: does not compile")
            return 1
        print("compiles")
        return 0
    bs = build_set(cfg, tier)
    exe = vlib.build_harness(f"harness/{HARNESS}.cpp", cfg, **harness_kw(cfg, tier, bs))
    argv = [exe, "--replay", json.dumps(inp)]
    print("replaying:", " ".join(shlex.quote(a) for a in argv))
    return subprocess.run(argv).returncode


def register(CHECKS):
    CHECKS["C09"] = check
    # records of this harness need the generated archive to be rebuilt before a replay
    import sys
    checks = sys.modules.get("checks")
    if checks is not None and not getattr(checks, "_c09_replay_hook", False):
        orig = checks.replay_enum
        checks.replay_enum = lambda rec: replay_enum(rec, orig)
        checks._c09_replay_hook = True
