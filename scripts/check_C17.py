"""C17 - fences catch every overflow beside low-level allocations; fill patterns exact.
Exhaustive input enumeration with harness/h_fence.cpp (see design/notes_C17.md)."""

FENCE_CFGS = ["dbg", "dbg16", "chk"]      # fill + fences (8, 16, 8 without assertions)
NOFENCE_CFGS = ["rwd", "rel"]             # no fences: nothing may ever be reported
FILL_CFGS = ["rwd", "dbg", "dbg16", "chk"]
ARENA_KINDS = ["pool_node", "pool_array", "pool_small", "stack", "iteration", "static",
               "coll_node_id", "coll_array_log2", "coll_small_id", "coll_node_log2",
               # nearly exhausted stacks: fill up leaving k = 0 .. 2*fence+17 bytes, then requests of 1..3 bytes, alignment 1/8/16
               "static_edge", "stack_edge", "stack_vm_edge", "iter_edge"]


def check(prop, tier, only):
    import checks
    import vlib
    J = checks.J
    q = tier == "quick"
    jobs = []

    def low(cfg, alloc, shards, extra=""):
        for i in range(shards):
            jobs.append(J("h_fence", cfg, f"--mode low --alloc {alloc} --shard {i}/{shards} {extra}".strip(),
                          name=f"low/{alloc}[{cfg}] shard {i}/{shards}"))

    # the expensive runs first so that the pool of workers is used well
    for cfg in FENCE_CFGS:
        if q:
            low(cfg, "virtual", 6)
        elif cfg == "chk":
            low(cfg, "virtual", 6, "--lite")   # same code as dbg apart from assertions: page fences with 4 values
        else:
            low(cfg, "virtual", 16)
    for cfg in FENCE_CFGS:
        for alloc in ("heap", "malloc", "new"):
            low(cfg, alloc, 1 if q else 8)
    for cfg in NOFENCE_CFGS:
        for alloc in ("heap", "malloc", "new", "virtual"):
            low(cfg, alloc, 1 if q else 4)
    for cfg in FILL_CFGS:
        for kind in ARENA_KINDS:
            jobs.append(J("h_fence", cfg, f"--mode arena --kind {kind}", name=f"arena/{kind}[{cfg}]"))

    note = ("Part 1: for heap_allocator, malloc_allocator, new_allocator (max_alignment wide fences) and "
            "virtual_memory_allocator (page wide fences), through allocator_traits allocate_node/deallocate_node and "
            "allocate_array/deallocate_array: every node size x alignment x every byte offset of both fences x every byte "
            "value != 0xFD is written (exactly one byte), the node is deallocated and a counting buffer overflow handler must "
            "have been called exactly once with write_ptr == that byte and (memory,size) == the node; two corrupted bytes -> "
            "the lowest address; every in-bounds write -> no report; returned memory all 0xCD, fences all 0xFD; in rwd/rel "
            "(no fences) nothing is ever reported; the default handler is run in a forked child and must abort naming the "
            "address. Part 2: all operation sequences up to depth 6 (quick) / 9 (thorough) on memory_pool (3 list types), "
            "memory_pool_collection (4 shapes), memory_stack, iteration_allocator<2>, static_allocator in static storage: "
            "fresh memory all 0xCD, memory released to a pool 0xDD except the link bytes, live neighbours keep their pattern, "
            "every allocation lies inside the allocator's storage, the guard zones around the storage stay untouched and the "
            "buffer overflow handler is never called (the harness writes in bounds only); additionally nearly exhausted "
            "static_allocator / memory_stack (static blocks and virtual_memory_allocator blocks) / iteration_allocator: every "
            "remainder 0..2*fence+17 followed by up to 2 (quick) / 3 (thorough) requests of 1..3 bytes with alignment 1, 8, 16 "
            "through try_allocate and allocate.")
    assumptions = [
        "fence width is what the allocators lay out today: detail::max_alignment bytes (lowlevel_allocator) and one page "
        "(virtual_memory_allocator) on both sides whenever FOONATHAN_MEMORY_DEBUG_FENCE != 0; the harness verifies that these "
        "bytes hold 0xFD on return before it writes to them",
        "page fences (8192 offsets, ~30 us per case): all 255 values only in the thorough tier on 4 shapes in dbg/dbg16, "
        "elsewhere the values 00 FC FE FF at every offset",
        "malloc/new/mmap addresses are not controlled; verdicts do not depend on them (offsets are relative to the node)",
        "released stack / iteration / static memory: only the new-memory pattern and the integrity of live neighbours are "
        "demanded (the property speaks of memory released to a pool)",
    ]
    # overflows are reported to the buffer-overflow handler that is installed: concurrent registrations must not lose a handler
    # (scheduler harness of C13 over src/debugging.cpp compiled with the atomic shim: all schedules of 2-3 registering threads)
    j = J("h_tsafe_ll", "dbg", "--ll", name="handler-registries-threads[dbg]")
    j["only_tags"] = ["handler-registration-lost/buffer_overflow"]
    jobs.append(j)
    # fill patterns on the arena allocators through the explorer: M-fillnew / M-fillfree on every returned / released range and
    # M-content ("without touching neighbouring live memory") on every transition, allocator_traits family included (array element
    # sizes below the node size), configurations with fill
    fc = ["rwd", "dbg"] if tier == "quick" else ["rwd", "dbg", "dbg16"]
    ex = checks.pool_suite(tier, fc[:1], fams=("traits",)) + checks.coll_suite(tier, fc[:1], fams=("traits",))
    if tier != "quick":
        ex += checks.pool_suite(tier, fc[1:], fams=("traits",)) + checks.pool_suite(tier, fc[:1], extra="--tries 1") + checks.stack_suite(tier, fc[:1], extra="--tries 1")
    for j in ex:
        j["own"] = ["M-content"]
    return checks.run_explore_check(prop, tier, ex, only=only, enum_jobs=jobs, note="explorer part: " + checks.NOTE_BFS + "M-fillnew/M-fillfree/M-content. Enumeration part: " + note,
                                    assumptions=assumptions)


def register(CHECKS):
    CHECKS["C17"] = check
