// move assignment of a pool onto a pool that still has free nodes: the target's blocks are returned to the
// block allocator first, then the free list swap writes into the nodes that lived in those blocks
#include <foonathan/memory/memory_pool.hpp>
#include <cstdio>
using namespace foonathan::memory;
int main()
{
    memory_pool<array_pool> a(16, 16 + 8 * 16), b(16, 16 + 8 * 16);
    void* x = b.allocate_node();
    a = std::move(b); // a's own block is released, then its free list is swapped out
    a.deallocate_node(x);
    std::printf("OK\n");
}
