// ordered free list: deallocation position search compares addresses with the end proxy
#include <foonathan/memory/memory_pool.hpp>
#include <foonathan/memory/static_allocator.hpp>
#include <cstdio>
#include <cstdlib>
using namespace foonathan::memory;
// pool object in static storage (low address), its memory on the heap (higher address)
static memory_pool<array_pool>* pool;
alignas(16) static char storage[sizeof(memory_pool<array_pool>)];
int main()
{
    pool = new (storage) memory_pool<array_pool>(16, 16 + 8 * 16); // 8 nodes
    void* n[8];
    for (int i = 0; i < 6; ++i) n[i] = pool->allocate_node();   // nodes 0..5
    void* b = pool->allocate_array(2);                           // nodes 6,7
    std::printf("object at %p, memory at %p\n", (void*)pool, n[0]);
    pool->deallocate_node(n[0]);
    pool->deallocate_node(n[2]);
    pool->deallocate_node(n[4]);
    pool->deallocate_array(b, 2);      // last_dealloc_ = node 6
    void* c = pool->allocate_array(2); // takes 6,7 again; cache moves to the end proxy
    pool->deallocate_node(n[1]);       // search for position between n0 and n2
    // everything released: pool must be able to hand out all 8 nodes again
    pool->deallocate_node(n[3]);
    pool->deallocate_node(n[5]);
    pool->deallocate_array(c, 2);
    for (int i = 0; i < 8; ++i)
        if (!pool->try_allocate_node()) { std::printf("FAIL: node %d missing\n", i); return 1; }
    std::printf("OK\n");
    pool->~memory_pool();
}
