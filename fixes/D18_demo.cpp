// fence configurations: an array that needs its own reservation passes the bad_array_size check but the
// reservation (wrapped in debug fences) does not fit a fresh block: assertion failure / insert(nullptr)
#include <foonathan/memory/memory_pool_collection.hpp>
#include <foonathan/memory/heap_allocator.hpp>
#include <cstdio>
using namespace foonathan::memory;
int main()
{
    using blocks = growing_block_allocator<heap_allocator, 1, 1>; // blocks of equal size
    memory_pool_collection<node_pool, log2_buckets, blocks> pool(33, 292);
    using traits = allocator_traits<decltype(pool)>;
    try
    {
        void* p = traits::allocate_array(pool, 7, 33, 1); // 231 bytes -> 4 nodes of 64 bytes
        std::printf("allocate_array(7,33) = %p\n", p);
        if (!p) { std::printf("FAIL: null\n"); return 1; }
        traits::deallocate_array(pool, p, 7, 33, 1);
    }
    catch (std::bad_alloc& e)
    {
        std::printf("refused with %s\n", e.what());
    }
    std::printf("OK\n");
}
