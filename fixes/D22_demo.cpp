// mode 2: a thread that ADOPTS a free temporary stack never registers the thread-exit detector (a thread_local that is
// only odr-used where a NEW stack is created), so the stack stays marked in use after that thread exits
#include <foonathan/memory/temporary_allocator.hpp>
#include <cstdio>
#include <set>
#include <thread>
using namespace foonathan::memory;
int main()
{
    std::set<void*> stacks;
    for (int i = 0; i < 6; ++i)
    {
        std::thread t([&] {
            temporary_allocator a;
            a.allocate(16, 8);
            stacks.insert(&get_temporary_stack());
        });
        t.join(); // strictly sequential: every thread after the first can reuse the first thread's stack
    }
    std::printf("6 sequential threads used %zu distinct temporary stacks\n", stacks.size());
    return stacks.size() == 1 ? 0 : 1;
}
