// memory_pool_collection::allocate_array returns null when the array needs a dedicated reservation and
// count*size is not a multiple of the bucket's node size
#include <foonathan/memory/memory_pool_collection.hpp>
#include <cstdio>
using namespace foonathan::memory;
int main()
{
    memory_pool_collection<node_pool, identity_buckets> pool(16, 256);
    void* p = allocator_traits<decltype(pool)>::allocate_array(pool, 7, 6, 1); // 42 bytes from the 8 byte bucket
    std::printf("allocate_array(7,6) = %p\n", p);
    if (!p) { std::printf("FAIL: throwing allocation function returned null\n"); return 1; }
    allocator_traits<decltype(pool)>::deallocate_array(pool, p, 7, 6, 1);
    std::printf("OK\n");
}
