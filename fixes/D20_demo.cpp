// small node pool: an invalid release must be reported before anything is modified; the list used to fill the
// "node" with the freed pattern first, clobbering e.g. a chunk header (then crashing in the chunk search)
#include <foonathan/memory/memory_pool.hpp>
#include <foonathan/memory/debugging.hpp>
#include <cstdio>
#include <cstdlib>
#include <cstring>
using namespace foonathan::memory;
static unsigned char* watched; static unsigned char before[16];
int main()
{
    memory_pool<small_node_pool> pool(4, memory_pool<small_node_pool>::min_block_size(4, 300));
    void* n[260];
    for (auto& x : n) x = pool.allocate_node();             // two chunks in use
    unsigned char* first = static_cast<unsigned char*>(n[0]);
    for (auto x : n) if (static_cast<unsigned char*>(x) < first) first = static_cast<unsigned char*>(x);
    watched = first - 16;                                    // the chunk header in front of the first node
    std::memcpy(before, watched, 16);
    set_invalid_pointer_handler([](const allocator_info&, const void*) {
        bool same = std::memcmp(before, watched, 16) == 0;
        std::printf("reported, chunk header %s\n", same ? "untouched" : "ALREADY MODIFIED");
        std::exit(same ? 0 : 1);
    });
    pool.deallocate_node(watched + 1);                       // not a node of the pool
    std::printf("FAIL: invalid release was not reported\n");
    return 1;
}
