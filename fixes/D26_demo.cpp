// D26/D27 (stack mode 2): the upstream (malloc) fails while a thread obtains its temporary stack.
//  D26: the stack found by find_unused() is already marked in use when its re-initialisation throws -> it stays in use for ever.
//  D27: a NEW stack was linked into the global list by its base class before the member memory_stack was constructed;
//       when that constructor throws, the half-constructed object stays in the list (marked in use, storage leaked).
// Build: link with -Wl,--wrap=malloc against the library; exit 0 = correct.
#include <foonathan/memory/temporary_allocator.hpp>
#include <cstdio>
#include <cstdlib>
#include <new>
#include <set>
#include <thread>
using namespace foonathan::memory;
extern "C" void* __real_malloc(std::size_t);
static bool      fail_big = false;
static int       failed   = 0;
extern "C" void* __wrap_malloc(std::size_t n)
{
    if (fail_big && n >= 4096)
    {
        ++failed;
        return nullptr;
    }
    return __real_malloc(n);
}
static void* use_stack(bool expect_throw)
{
    void*       which = nullptr;
    std::thread t([&] {
        try
        {
            temporary_allocator a;
            a.allocate(16, 8);
            which = &get_temporary_stack();
        }
        catch (std::bad_alloc&) // out_of_memory derives from it
        {
            which = nullptr;
        }
    });
    t.join();
    if (expect_throw != (which == nullptr))
        std::printf("  (unexpected: throw=%d)\n", which == nullptr);
    return which;
}
int main()
{
    out_of_memory::set_handler([](const allocator_info&, std::size_t) {});
    std::set<void*> stacks;
    // D27: the very first creation fails
    fail_big = true;
    use_stack(true);
    fail_big = false;
    stacks.insert(use_stack(false)); // creates stack #1 (and must not find a half-built one)
    // D26: adoption of the free stack #1 fails
    fail_big = true;
    use_stack(true);
    fail_big = false;
    for (int i = 0; i < 4; ++i)
        stacks.insert(use_stack(false)); // must all adopt stack #1 again
    std::printf("%d injected malloc failures; later sequential threads used %zu distinct temporary stacks (1 expected)\n", failed, stacks.size());
    return stacks.size() == 1 ? 0 : 1;
}
