// ordered free list with double-free checking: a double release must be reported before anything is modified;
// the list used to fill the node with the freed pattern first, destroying the links of the (already free) node
#include <foonathan/memory/memory_pool.hpp>
#include <foonathan/memory/debugging.hpp>
#include <cstdio>
#include <cstdlib>
#include <cstring>
using namespace foonathan::memory;
static unsigned char* watched; static unsigned char before[16];
int main()
{
    memory_pool<array_pool> pool(16, 16 + 8 * 16);
    void* n[8];
    for (auto& x : n) x = pool.allocate_node();
    pool.deallocate_node(n[1]);
    pool.deallocate_node(n[3]);
    pool.deallocate_node(n[5]);
    watched = static_cast<unsigned char*>(n[3]);
    std::memcpy(before, watched, 16);
    set_invalid_pointer_handler([](const allocator_info&, const void*) {
        bool same = std::memcmp(before, watched, 16) == 0;
        std::printf("reported, free node %s\n", same ? "untouched" : "ALREADY MODIFIED");
        std::exit(same ? 0 : 1);
    });
    pool.deallocate_node(n[3]); // double free of a node in the middle of the list
    std::printf("FAIL: double free was not reported\n");
    return 1;
}
