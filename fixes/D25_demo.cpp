// memory_pool<small_node_pool>::next_capacity() promises "capacity_left() will increase by this amount" but the
// free list's usable_size() ignored the alignment buffer between chunks and did not round the last chunk to whole nodes
#include <foonathan/memory/memory_pool.hpp>
#include <cstdio>
using namespace foonathan::memory;
int main()
{
    int bad = 0;
    for (std::size_t ns : {1u, 3u, 14u})
        for (std::size_t block : {304u, 1000u, 28880u})
        {
            if (block < memory_pool<small_node_pool>::min_block_size(ns, 1))
                continue;
            memory_pool<small_node_pool, growing_block_allocator<heap_allocator, 1, 1>> pool(ns, block);
            std::size_t n = pool.capacity_left() / ns;
            for (std::size_t i = 0; i < n; ++i)
                pool.allocate_node();               // use up the first block (nodes are leaked on purpose)
            std::size_t promised = pool.next_capacity();
            pool.allocate_node();                   // grows
            std::size_t got = pool.capacity_left() + ns;
            std::printf("node %zu block %zu: next_capacity() %zu, capacity added %zu %s\n", ns, block, promised, got, promised == got ? "" : "MISMATCH");
            bad += promised != got;
        }
    return bad ? 1 : 0;
}
