// joint_ptr::reset() runs the destructor of the joint object and THEN reads the joint stack (a member of the destroyed
// joint_type<T> base) to compute the size of the block it gives back. Reading a destroyed object is undefined; with GCC's
// lifetime dead store elimination (-O2, -flifetime-dse default) the read yields garbage: the block is released with a wrong size.
// Exit 0 = block released with the size it was allocated with.
#include <foonathan/memory/joint_allocator.hpp>
#include <cstdio>
#include <cstdlib>
#include <cstring>
using namespace foonathan::memory;
struct logging_allocator
{
    using is_stateful = std::true_type;
    std::size_t allocated = 0, released = 0;
    int         calls = 0;
    void* allocate_node(std::size_t size, std::size_t)
    {
        allocated = size;
        return std::memset(std::malloc(size), 0xAA, size);
    }
    void deallocate_node(void* p, std::size_t size, std::size_t) noexcept
    {
        released = size;
        ++calls;
        std::free(p);
    }
};
struct plain : joint_type<plain> // trivially destructible apart from the base
{
    int value;
    plain(joint tag, int v) : joint_type<plain>(tag), value(v) {}
};
struct with_array : joint_type<with_array>
{
    joint_array<int> items;
    with_array(joint tag, std::size_t n) : joint_type<with_array>(tag), items(n, 7, *this) {}
};
template <class T, class Arg>
static int one(const char* name, std::size_t extra, Arg arg)
{
    logging_allocator a;
    {
        auto p = allocate_joint<T>(a, joint_size(extra), arg); // released by the destructor of p (reset())
    }
    std::printf("%-10s allocated %zu bytes, released with size %zu (%d release call(s))\n", name, a.allocated, a.released, a.calls);
    return a.allocated == a.released && a.calls == 1 ? 0 : 1;
}
int main()
{
    int bad = 0;
    bad += one<plain>("plain", 64, 3);
    bad += one<with_array>("with_array", 5 * sizeof(int), std::size_t(5));
    return bad ? 1 : 0;
}
