// verif engine: basic utilities shared by all harnesses
// - 128 bit hashing of raw memory
// - minimal JSON writer
// - containment of abort / crash / hang / terminate inside a guarded region
#ifndef VERIF_CORE_HPP
#define VERIF_CORE_HPP

#include <csetjmp>
#include <csignal>
#include <cstdarg>
#include <cstdint>
#include <cstdio>
#include <cstdlib>
#include <cstring>
#include <exception>
#include <string>
#include <sys/time.h>
#include <unistd.h>
#include <vector>

namespace verif
{
    using u8  = unsigned char;
    using u16 = std::uint16_t;
    using u32 = std::uint32_t;
    using u64 = std::uint64_t;

    //=== hashing ===//
    struct hash128
    {
        u64 a, b;
        bool operator==(const hash128& o) const noexcept
        {
            return a == o.a && b == o.b;
        }
        bool operator!=(const hash128& o) const noexcept
        {
            return !(*this == o);
        }
    };

    struct hasher
    {
        u64 a = 0x9E3779B97F4A7C15ull, b = 0xC2B2AE3D27D4EB4Full;

        void word(u64 w) noexcept
        {
            a = (a ^ w) * 0xff51afd7ed558ccdull;
            a ^= a >> 32;
            b = (b + w + (b << 7)) * 0xc4ceb9fe1a85ec53ull;
            b ^= b >> 29;
        }
        void bytes(const void* p, std::size_t n) noexcept
        {
            auto c = static_cast<const u8*>(p);
            while (n >= 8)
            {
                u64 w;
                std::memcpy(&w, c, 8);
                word(w);
                c += 8;
                n -= 8;
            }
            if (n)
            {
                u64 w = 0;
                std::memcpy(&w, c, n);
                word(w ^ (u64(n) << 56));
            }
        }
        hash128 get() const noexcept
        {
            hasher h = *this;
            h.word(0x1234567);
            h.word(h.a ^ h.b);
            return {h.a, h.b};
        }
    };

    struct hash128_hash
    {
        std::size_t operator()(const hash128& h) const noexcept
        {
            return std::size_t(h.a ^ (h.b * 0x9E3779B97F4A7C15ull));
        }
    };

    //=== string formatting ===//
    inline std::string fmt(const char* f, ...)
    {
        char    buf[1024];
        va_list ap;
        va_start(ap, f);
        std::vsnprintf(buf, sizeof buf, f, ap);
        va_end(ap);
        return buf;
    }

    inline std::string json_escape(const std::string& s)
    {
        std::string r;
        for (char c : s)
        {
            if (c == '"' || c == '\\')
            {
                r += '\\';
                r += c;
            }
            else if (c == '\n')
                r += "\\n";
            else if ((unsigned char)c < 0x20)
                r += ' ';
            else
                r += c;
        }
        return r;
    }

    // very small JSON builder: objects and arrays as strings
    struct jobj
    {
        std::string s    = "{";
        bool        first = true;
        jobj& raw(const std::string& k, const std::string& v)
        {
            if (!first)
                s += ",";
            first = false;
            s += "\"" + k + "\":" + v;
            return *this;
        }
        jobj& str(const std::string& k, const std::string& v)
        {
            return raw(k, "\"" + json_escape(v) + "\"");
        }
        jobj& num(const std::string& k, long long v)
        {
            return raw(k, std::to_string(v));
        }
        jobj& dbl(const std::string& k, double v)
        {
            return raw(k, fmt("%.3f", v));
        }
        jobj& boolean(const std::string& k, bool v)
        {
            return raw(k, v ? "true" : "false");
        }
        std::string done() const
        {
            return s + "}";
        }
    };
    struct jarr
    {
        std::string s    = "[";
        bool        first = true;
        jarr& raw(const std::string& v)
        {
            if (!first)
                s += ",";
            first = false;
            s += v;
            return *this;
        }
        jarr& str(const std::string& v)
        {
            return raw("\"" + json_escape(v) + "\"");
        }
        std::string done() const
        {
            return s + "]";
        }
    };

    inline double now_s()
    {
        timeval tv;
        gettimeofday(&tv, nullptr);
        return double(tv.tv_sec) + double(tv.tv_usec) * 1e-6;
    }

    //=== containment ===//
    enum outcome_kind
    {
        OUT_OK       = 0,
        OUT_ABORTED  = 1, // abort() called (assertion, unreachable, default handler, terminate)
        OUT_CRASHED  = 2, // SIGSEGV / SIGBUS / SIGFPE / SIGILL
        OUT_HUNG     = 3, // did not return within the time limit
        OUT_REPORTED = 4  // library reported through a handler that must not return (harness longjmp'd out)
    };

    inline const char* outcome_name(int k)
    {
        switch (k)
        {
        case OUT_OK:
            return "ok";
        case OUT_ABORTED:
            return "aborted";
        case OUT_CRASHED:
            return "crashed";
        case OUT_HUNG:
            return "hung";
        case OUT_REPORTED:
            return "reported";
        }
        return "?";
    }

    struct guard_state
    {
        sigjmp_buf            jmp;
        sigjmp_buf            outer_jmp; // fallback region around a whole harness step (see VERIF_OUTER_GUARDED)
        volatile sig_atomic_t active   = 0;
        volatile sig_atomic_t outer_active = 0;
        volatile u64          seq      = 0; // incremented for every guarded region
        volatile u64          seen_seq = 0; // timer: sequence number seen at last tick
        volatile int          ticks    = 0; // ticks the current region has been running
        int                   hang_ticks = 20; // * 50ms of CPU time
        bool                  installed  = false;
    };
    inline guard_state& guard()
    {
        static guard_state g;
        return g;
    }

    extern "C" inline void verif_signal_handler(int sig)
    {
        auto& g = guard();
        if (sig == SIGPROF)
        {
            if (!g.active && !g.outer_active)
                return;
            if (g.seen_seq == g.seq)
            {
                if (++g.ticks >= g.hang_ticks)
                {
                    if (g.active)
                    {
                        g.active = 0;
                        siglongjmp(g.jmp, OUT_HUNG);
                    }
                    g.outer_active = 0;
                    siglongjmp(g.outer_jmp, OUT_HUNG);
                }
            }
            else
            {
                g.seen_seq = g.seq;
                g.ticks    = 0;
            }
            return;
        }
        if (g.active)
        {
            g.active = 0;
            siglongjmp(g.jmp, OUT_CRASHED);
        }
        if (g.outer_active)
        {
            g.outer_active = 0;
            siglongjmp(g.outer_jmp, OUT_CRASHED);
        }
        signal(sig, SIG_DFL);
        raise(sig);
    }

    [[noreturn]] inline void guard_escape(int kind)
    {
        auto& g = guard();
        if (g.active)
        {
            g.active = 0;
            siglongjmp(g.jmp, kind);
        }
        if (g.outer_active)
        {
            g.outer_active = 0;
            siglongjmp(g.outer_jmp, kind);
        }
        std::fprintf(stderr, "verif: abort outside guarded region (kind %d)\n", kind);
        std::_Exit(70);
    }

    inline void install_guards(int hang_ms = 1000)
    {
        auto& g = guard();
        if (g.installed)
            return;
        g.installed  = true;
        g.hang_ticks = hang_ms / 50 > 1 ? hang_ms / 50 : 2;
        static char altstack[1 << 16];
        stack_t     ss;
        ss.ss_sp    = altstack;
        ss.ss_size  = sizeof altstack;
        ss.ss_flags = 0;
        sigaltstack(&ss, nullptr);
        struct sigaction sa;
        std::memset(&sa, 0, sizeof sa);
        sa.sa_handler = verif_signal_handler;
        sa.sa_flags   = SA_ONSTACK | SA_NODEFER;
        sigemptyset(&sa.sa_mask);
        for (int s : {SIGSEGV, SIGBUS, SIGFPE, SIGILL, SIGPROF})
            sigaction(s, &sa, nullptr);
        itimerval it;
        it.it_interval.tv_sec  = 0;
        it.it_interval.tv_usec = 50000;
        it.it_value            = it.it_interval;
        // CPU time of this process, not wall time: a process that is descheduled on a loaded machine must not look hung
        setitimer(ITIMER_PROF, &it, nullptr);
        std::set_terminate([] { guard_escape(OUT_ABORTED); });
    }

// run `body` guarded; evaluates to outcome_kind
#define VERIF_GUARDED(outvar, body)                                                                \
    do                                                                                             \
    {                                                                                              \
        auto& g__ = ::verif::guard();                                                              \
        g__.seq   = g__.seq + 1;                                                                   \
        int rc__  = sigsetjmp(g__.jmp, 1);                                                         \
        if (rc__ == 0)                                                                             \
        {                                                                                          \
            g__.active = 1;                                                                        \
            body;                                                                                  \
            g__.active = 0;                                                                        \
            outvar     = ::verif::OUT_OK;                                                          \
        }                                                                                          \
        else                                                                                       \
            outvar = rc__;                                                                         \
    } while (0)

// fallback region around a whole harness step (library calls inside it still use VERIF_GUARDED): used by the explorer only
// for histories that continue behind a violation of another property's monitor, where harness code that trusts the
// library (getters outside guarded regions) may crash on the broken state
#define VERIF_OUTER_GUARDED(outvar, body)                                                          \
    do                                                                                             \
    {                                                                                              \
        auto& g__ = ::verif::guard();                                                              \
        g__.seq   = g__.seq + 1;                                                                   \
        int rc__  = sigsetjmp(g__.outer_jmp, 1);                                                   \
        if (rc__ == 0)                                                                             \
        {                                                                                          \
            g__.outer_active = 1;                                                                  \
            body;                                                                                  \
            g__.outer_active = 0;                                                                  \
            outvar           = ::verif::OUT_OK;                                                    \
        }                                                                                          \
        else                                                                                       \
        {                                                                                          \
            g__.active = 0;                                                                        \
            outvar     = rc__;                                                                     \
        }                                                                                          \
    } while (0)

} // namespace verif

// link with -Wl,--wrap=abort
extern "C" void __real_abort(void);
#ifndef VERIF_NO_WRAP_ABORT_DEF
extern "C" void __wrap_abort(void)
{
    if (verif::guard().active || verif::guard().outer_active)
        verif::guard_escape(verif::OUT_ABORTED);
    __real_abort();
    for (;;)
    {
    }
}
#endif

#endif
