// verif engine: cooperative, preemption-bounded thread scheduler + schedule explorer (header-only)
//
// Used by C13 (thread_safe_allocator) and C14 (temporary stack list).
//
// ---------------------------------------------------------------------------------------------
// What it is
//   * Every execution runs a fresh set of REAL threads (std::thread: thread_locals and thread-exit
//     destructors are the real ones). Exactly ONE of them is runnable at any time; the others sleep
//     on a private futex word. The running thread keeps running until it reaches a *scheduling
//     point*; there a decision is taken which thread runs next (the decision is computed inline by
//     the thread that holds the baton, there is no controller thread in between).
//   * Scheduling points are the calls of
//         sched::point(tag)                 always-enabled point ("about to do <tag>")
//         sched::wait_until(pred,arg,tag)   point at which the thread is enabled only while
//                                           pred(arg) is true (blocking operation, e.g. mutex lock)
//         thread start ("start") and thread end ("exit": after ALL other thread-exit destructors of
//         that thread have run; the notifier is a thread_local constructed first, destroyed last).
//     Code between two scheduling points of a thread executes atomically w.r.t. the other threads.
//     Outside an execution (e.g. set-up code on the main thread) point() is a no-op and
//     wait_until() requires its predicate to hold.
//   * A thread whose predicate is false is not enabled. "No enabled thread, but unfinished threads"
//     = deadlock. More than run_options::max_steps decisions = horizon (livelock guard).
//   * A decision: replay the given prefix of choices (thread ids) first; afterwards the DEFAULT
//     choice = keep running the current thread if it is enabled, else the enabled thread with the
//     lowest id. Choosing another thread while the current one is still enabled costs ONE
//     preemption; switching away from a blocked / finished thread (or the very first decision)
//     costs nothing.
//   * explorer: depth-first enumeration of all choice sequences with iterative preemption
//     bounding 0,1,2,...,B. Every execution is identified by its prefix (its last element is the
//     last non-default choice). After an execution, every alternative (step i >= |prefix|, enabled
//     thread t != chosen) yields the child prefix trace[0..i)+[t]; cost-0 children stay in the
//     current bound level, cost-1 children are deferred to level+1 (or counted as `pruned` when the
//     level is the last one). Each schedule with <= B preemptions is executed exactly once; if
//     `pruned == 0` at the end, ALL schedules of the program were executed (no bound needed).
//     Replay verifies that the prefix sees exactly the enabled sets / current threads its parent saw
//     (running hash); a mismatch (or a prefix choice that is not enabled) is *divergence*: a hard
//     harness error, never a property verdict.
//   * Executions that do not end cleanly (deadlock, horizon, divergence, a thread removed with
//     kill_self()) leave their blocked threads parked forever (detached) and the execution record
//     is leaked on purpose; run_result::clean == false tells the caller to leak its world object too.
//
// API summary
//   struct world            { int threads(); void run_thread(int id); u64 state_hash(); }   (virtual)
//   run_result run(world&, prefix, run_options)       one execution
//   int  self()             id of the calling scheduled thread, sched::outside otherwise
//   bool in_execution()
//   void point(tag) / void wait_until(pred, arg, tag) / [[noreturn]] void kill_self()
//   class mutex             instrumented Mutex (lock/try_lock/unlock are scheduling points, records
//                           owner + counters); usable as Mutex template argument of library code
//   class explorer          next(item&) / report(item, run_result): frontier logic only (a caller that
//                           needs one process per execution, like C14, forks between the two calls)
//   explore(opts, make, on_exec)   convenience loop: make() -> world*, on_exec(world&, result, item)
//   std::string format_schedule(result)    "T0:start T0:lock T1:start* ..."  (* = preemption)
//   int  pin_to_free_cpu()  optional speed-up: keep all threads of this process on one otherwise unused cpu
#ifndef VERIF_SCHED_HPP
#define VERIF_SCHED_HPP

#include <atomic>
#include <climits>
#include <cstdint>
#include <cstdio>
#include <cstdlib>
#include <string>
#include <thread>
#include <unordered_set>
#include <vector>

#include <fcntl.h>
#include <linux/futex.h>
#include <sched.h>
#include <sys/file.h>
#include <sys/syscall.h>
#include <sys/time.h>
#include <unistd.h>

namespace verif
{
namespace sched
{
    using u8  = unsigned char;
    using u64 = std::uint64_t;

    constexpr int max_threads = 8;
    constexpr int none        = -1; // "no thread" (mutex owner, current thread before the first decision)
    constexpr int outside     = -2; // self() of a thread that is not part of an execution

    //=== what the harness provides: one fresh world per execution ===//
    struct world
    {
        virtual ~world() {}
        virtual int  threads()          = 0; // number of threads (<= max_threads)
        virtual void run_thread(int id) = 0; // body of thread id; runs under the scheduler
        virtual u64  state_hash()            // abstract shared state (for counting distinct choice points)
        {
            return 0;
        }
    };

    struct step
    {
        u8          chosen;  // thread resumed by this decision
        u8          enabled; // bit set of enabled threads at the decision
        signed char cur;     // thread that was running before the decision (none at the start)
        u8          cost;    // 1 = preemption
        const char* tag;     // point at which `chosen` was parked = what it does next
    };

    struct run_options
    {
        std::size_t max_steps = 100000; // horizon
    };

    struct run_result
    {
        std::vector<step> trace;
        std::vector<u64>  state_hashes; // one per decision (thread progress + world::state_hash())
        bool              complete = false, deadlock = false, horizon = false, diverged = false;
        bool              killed = false, threw = false; // kill_self() used / exception escaped a body
        bool              clean    = false;              // all threads joined, world may be destroyed
        int               preemptions = 0;
        unsigned          blocked_at_end = 0; // bit set of unfinished threads at deadlock/horizon
    };

    namespace detail
    {
        inline void fwait(std::atomic<int>& w) noexcept
        {
            while (w.load(std::memory_order_acquire) == 0)
                syscall(SYS_futex, reinterpret_cast<int*>(&w), FUTEX_WAIT_PRIVATE, 0, nullptr, nullptr, 0);
            w.store(0, std::memory_order_relaxed);
        }
        inline void fwake(std::atomic<int>& w) noexcept
        {
            w.store(1, std::memory_order_release);
            syscall(SYS_futex, reinterpret_cast<int*>(&w), FUTEX_WAKE_PRIVATE, 1, nullptr, nullptr, 0);
        }
        [[noreturn]] inline void park_forever() noexcept
        {
            static std::atomic<int> never{0};
            for (;;)
                syscall(SYS_futex, reinterpret_cast<int*>(&never), FUTEX_WAIT_PRIVATE, 0, nullptr, nullptr, 0);
        }
        inline u64 mix(u64 h, u64 v) noexcept
        {
            h = (h ^ v) * 0xff51afd7ed558ccdull;
            return h ^ (h >> 29);
        }

        struct thread_rec
        {
            std::atomic<int> go{0};
            bool             finished = false, killed = false, threw = false;
            bool (*pred)(void*)       = nullptr;
            void*       arg           = nullptr;
            const char* at            = "start";
            unsigned    pc            = 0; // scheduling points passed
            std::thread th;
        };

        struct execution
        {
            int                    n = 0;
            thread_rec             t[max_threads];
            std::atomic<int>       main_go{0};
            world*                 w      = nullptr;
            const std::vector<u8>* prefix = nullptr;
            std::size_t            max_steps = 0;
            int                    cur       = none;
            run_result             r;

            // returns the thread to run next, or -1 when the execution is over
            int decide()
            {
                unsigned mask = 0, unfinished = 0;
                for (int i = 0; i < n; ++i)
                    if (!t[i].finished)
                    {
                        unfinished |= 1u << i;
                        if (!t[i].pred || t[i].pred(t[i].arg))
                            mask |= 1u << i;
                    }
                if (!unfinished)
                {
                    r.complete = true;
                    return -1;
                }
                r.blocked_at_end = unfinished;
                if (!mask)
                {
                    r.deadlock = true;
                    return -1;
                }
                std::size_t k = r.trace.size();
                if (k >= max_steps)
                {
                    r.horizon = true;
                    return -1;
                }
                bool cur_en = cur >= 0 && ((mask >> cur) & 1u);
                int  pick   = cur_en ? cur : __builtin_ctz(mask);
                if (k < prefix->size())
                {
                    pick = (*prefix)[k];
                    if (pick >= n || !((mask >> pick) & 1u))
                    {
                        r.diverged = true;
                        return -1;
                    }
                }
                u8  cost = (cur_en && pick != cur) ? 1 : 0;
                u64 h    = 0x9E3779B97F4A7C15ull;
                for (int i = 0; i < n; ++i)
                    h = mix(h, u64(t[i].pc) | (u64(t[i].finished) << 32) | (u64(t[i].pred != nullptr) << 33));
                h = mix(h, w->state_hash());
                r.trace.push_back(step{u8(pick), u8(mask), (signed char)cur, cost, t[pick].at});
                r.state_hashes.push_back(h);
                r.preemptions += cost;
                r.blocked_at_end = 0;
                cur              = pick;
                t[pick].pred     = nullptr;
                return pick;
            }

            // the calling thread `self` (or main: none) holds the baton and gives it up
            void yield_from(int self, bool leaving)
            {
                int pick = decide();
                if (pick < 0)
                {
                    fwake(main_go);
                    if (!leaving)
                        park_forever();
                    return;
                }
                if (pick == self)
                    return;
                fwake(t[pick].go);
                if (!leaving)
                    fwait(t[self].go);
            }
        };

        struct exit_notifier
        {
            execution* e  = nullptr;
            int        id = none;
            ~exit_notifier()
            {
                if (e && !e->t[id].finished)
                {
                    e->t[id].finished = true;
                    e->t[id].at       = "done";
                    e->yield_from(id, true);
                }
            }
        };

        inline thread_local execution*    tl_exec = nullptr;
        inline thread_local int           tl_self = outside;
        inline thread_local exit_notifier tl_exit;

        inline void trampoline(execution* e, int id)
        {
            tl_exit.e  = e; // first thread_local touched => constructed first => destroyed last
            tl_exit.id = id;
            tl_exec    = e;
            tl_self    = id;
            fwait(e->t[id].go);
            try
            {
                e->w->run_thread(id);
            }
            catch (...)
            {
                e->t[id].threw = true;
            }
            // thread-exit destructors of the body's thread_locals run now, still under the scheduler;
            // tl_exit's destructor announces the end of the thread
        }
    } // namespace detail

    inline int self() noexcept
    {
        return detail::tl_self;
    }
    inline bool in_execution() noexcept
    {
        return detail::tl_exec != nullptr;
    }

    /// scheduling point: the calling thread is about to do `tag` (static string)
    inline void point(const char* tag)
    {
        auto e = detail::tl_exec;
        if (!e)
            return;
        auto& me = e->t[detail::tl_self];
        me.at    = tag;
        ++me.pc;
        e->yield_from(detail::tl_self, false);
    }

    /// blocking scheduling point: the thread is enabled only while pred(arg) is true; when the call
    /// returns pred(arg) holds and no other thread has run since it was evaluated
    inline void wait_until(bool (*pred)(void*), void* arg, const char* tag)
    {
        auto e = detail::tl_exec;
        if (!e)
        {
            if (!pred(arg))
            {
                std::fprintf(stderr, "sched: blocking wait (%s) outside an execution can never be satisfied\n", tag);
                std::_Exit(71);
            }
            return;
        }
        auto& me = e->t[detail::tl_self];
        me.at    = tag;
        ++me.pc;
        me.arg  = arg;
        me.pred = pred;
        e->yield_from(detail::tl_self, false);
    }

    /// removes the calling thread from the execution for good (e.g. the code under test called abort());
    /// the execution continues with the others and ends unclean
    [[noreturn]] inline void kill_self()
    {
        auto e = detail::tl_exec;
        if (!e)
            std::_Exit(72);
        auto& me    = e->t[detail::tl_self];
        me.finished = true;
        me.killed   = true;
        me.at       = "killed";
        e->yield_from(detail::tl_self, true);
        detail::park_forever();
    }

    /// one execution of w under the schedule `prefix` + default choices
    inline run_result run(world& w, const std::vector<u8>& prefix, const run_options& o = run_options())
    {
        auto e       = new detail::execution;
        e->n         = w.threads();
        e->w         = &w;
        e->prefix    = &prefix;
        e->max_steps = o.max_steps;
        if (e->n > max_threads || e->n <= 0)
        {
            std::fprintf(stderr, "sched: bad thread count %d\n", e->n);
            std::_Exit(73);
        }
        for (int i = 0; i < e->n; ++i)
            e->t[i].th = std::thread(detail::trampoline, e, i);
        int pick = e->decide();
        if (pick >= 0)
        {
            detail::fwake(e->t[pick].go);
            detail::fwait(e->main_go);
        }
        run_result r = std::move(e->r);
        for (int i = 0; i < e->n; ++i)
        {
            r.killed = r.killed || e->t[i].killed;
            r.threw  = r.threw || e->t[i].threw;
        }
        r.clean = r.complete && !r.killed;
        if (r.clean)
        {
            for (int i = 0; i < e->n; ++i)
                e->t[i].th.join();
            delete e;
        }
        else
        {
            // blocked / killed threads stay parked forever and keep pointing into *e: leak it
            for (int i = 0; i < e->n; ++i)
                e->t[i].th.detach();
        }
        return r;
    }

    /// Performance only (never affects a verdict): since exactly one thread is runnable at a time, all
    /// threads of the process are best kept on ONE cpu (a futex hand-off is then a local context switch,
    /// measured 4-5x faster than a cross-core wake-up). Picks an allowed cpu that no other process using
    /// this function has taken (advisory lock file per cpu, held until the process exits) and pins the
    /// calling thread (threads created later inherit the mask); if all cpus are taken it shares one. Returns the cpu or -1.
    inline int pin_to_free_cpu()
    {
        cpu_set_t allowed;
        CPU_ZERO(&allowed);
        if (sched_getaffinity(0, sizeof allowed, &allowed) != 0)
            return -1;
        int ncpu  = int(sysconf(_SC_NPROCESSORS_CONF));
        int first = int(getpid()) % (ncpu > 0 ? ncpu : 1);
        for (int k = 0; k < ncpu; ++k)
        {
            int cpu = (first + k) % ncpu;
            if (!CPU_ISSET(cpu, &allowed))
                continue;
            char path[64];
            std::snprintf(path, sizeof path, "/tmp/verif-sched-cpu-%d.lock", cpu);
            int fd = open(path, O_CREAT | O_RDWR | O_CLOEXEC, 0666);
            if (fd < 0)
                continue;
            if (flock(fd, LOCK_EX | LOCK_NB) != 0)
            {
                close(fd);
                continue;
            }
            cpu_set_t one;
            CPU_ZERO(&one);
            CPU_SET(cpu, &one);
            if (sched_setaffinity(0, sizeof one, &one) == 0)
                return cpu; // fd stays open: the lock lives as long as the process
            close(fd);
        }
        // every cpu is taken (machine oversubscribed): still keep our threads together on one cpu, a hand-off between
        // two threads on the same run queue does not have to wait for a time slice on another busy cpu
        for (int k = 0; k < ncpu; ++k)
        {
            int cpu = (first + k) % ncpu;
            if (!CPU_ISSET(cpu, &allowed))
                continue;
            cpu_set_t one;
            CPU_ZERO(&one);
            CPU_SET(cpu, &one);
            if (sched_setaffinity(0, sizeof one, &one) == 0)
                return cpu;
        }
        return -1;
    }

    inline std::string format_schedule(const run_result& r)
    {
        std::string s;
        for (auto& st : r.trace)
        {
            if (!s.empty())
                s += ' ';
            s += "T" + std::to_string(int(st.chosen)) + ":" + st.tag + (st.cost ? "*" : "");
        }
        if (r.deadlock)
            s += " DEADLOCK";
        if (r.horizon)
            s += " HORIZON";
        if (r.diverged)
            s += " DIVERGED";
        return s;
    }

    inline std::vector<u8> choices_of(const run_result& r)
    {
        std::vector<u8> c;
        for (auto& st : r.trace)
            c.push_back(st.chosen);
        return c;
    }

    //=== instrumented mutex ===//
    /// Models a plain non-recursive mutex. lock() is a blocking scheduling point (the thread is not
    /// enabled while the mutex is held, also by itself => self-deadlock is found), unlock() and
    /// try_lock() are ordinary scheduling points. Misuse is recorded, not trapped: an unlock by a
    /// thread that is not the owner counts in bad_unlocks and releases the mutex anyway (what a spin
    /// lock would do), so that the consequences stay observable.
    class mutex
    {
    public:
        int owner       = none;
        u64 locks       = 0; // successful acquisitions
        u64 unlocks     = 0;
        u64 bad_unlocks = 0; // unlock while not owner
        u64 contended   = 0; // lock() calls that found the mutex held

        mutex() noexcept                 = default;
        mutex(const mutex&)              = delete;
        mutex& operator=(const mutex&)   = delete;

        void lock()
        {
            if (owner != none)
                ++contended;
            wait_until(&is_free, this, "lock");
            owner = self();
            ++locks;
        }
        bool try_lock()
        {
            point("try_lock");
            if (owner != none)
                return false;
            owner = self();
            ++locks;
            return true;
        }
        void unlock()
        {
            point("unlock");
            if (owner != self())
                ++bad_unlocks;
            owner = none;
            ++unlocks;
        }
        bool held_by_caller() const noexcept
        {
            return owner == self();
        }

    private:
        static bool is_free(void* m)
        {
            return static_cast<mutex*>(m)->owner == none;
        }
    };

    //=== explorer ===//
    struct explore_options
    {
        int         max_preemptions = 2;
        std::size_t max_steps       = 100000;
        u64         max_executions  = ~u64(0);
        double      deadline        = 0; // absolute time (seconds since epoch), 0 = none
    };

    struct item
    {
        std::vector<u8> choices; // prefix to replay
        u64             check = 0; // running hash over (enabled, cur, chosen) of the prefix steps as seen by the parent
        int             level = 0; // preemptions in the prefix
    };

    struct explore_stats
    {
        u64              executions = 0, transitions = 0, tree_nodes = 0, states = 0;
        u64              pruned         = 0;  // alternatives not taken because of the preemption bound
        int              completed_bound = -1; // highest bound whose level was finished
        bool             finished        = false; // all levels up to max_preemptions done
        bool             all_schedules   = false; // finished && pruned == 0: no bound was needed
        u64              divergences     = 0;
        u64              deadlocks = 0, horizons = 0, unclean = 0;
        std::size_t      max_trace = 0;
        std::vector<u64> by_preemptions; // executions with exactly k preemptions
        std::string      stop_reason;
    };

    class explorer
    {
    public:
        explicit explorer(const explore_options& o) : o_(o), levels_(std::size_t(o.max_preemptions) + 1)
        {
            levels_[0].push_back(item{});
            st_.by_preemptions.assign(std::size_t(o.max_preemptions) + 1, 0);
        }

        /// next prefix to execute; false when the enumeration is over (or stopped)
        bool next(item& out)
        {
            if (stopped_)
                return false;
            while (level_ <= o_.max_preemptions)
            {
                auto& l = levels_[std::size_t(level_)];
                if (!l.empty())
                {
                    if (st_.executions >= o_.max_executions)
                        return stop("execution cap");
                    if (o_.deadline > 0 && (st_.executions & 63) == 0 && now() > o_.deadline)
                        return stop("deadline");
                    out = std::move(l.back());
                    l.pop_back();
                    return true;
                }
                st_.completed_bound = level_;
                ++level_;
            }
            st_.finished      = true;
            st_.all_schedules = st_.pruned == 0;
            return false;
        }

        /// result of executing `it`; generates the children. false = divergence (hard error)
        bool report(const item& it, const run_result& r)
        {
            ++st_.executions;
            st_.transitions += r.trace.size();
            if (r.trace.size() > st_.max_trace)
                st_.max_trace = r.trace.size();
            if (r.deadlock)
                ++st_.deadlocks;
            if (r.horizon)
                ++st_.horizons;
            if (!r.clean)
                ++st_.unclean;
            std::size_t plen = it.choices.size();
            // verify the prefix
            std::vector<u64> pre(r.trace.size() + 1);
            pre[0] = 0x243F6A8885A308D3ull;
            for (std::size_t i = 0; i < r.trace.size(); ++i)
                pre[i + 1] = step_hash(pre[i], r.trace[i].enabled, r.trace[i].cur, r.trace[i].chosen);
            if (r.diverged || r.trace.size() < plen || (plen && pre[plen] != it.check))
            {
                ++st_.divergences;
                stop("prefix divergence on replay");
                return false;
            }
            int pcount = 0;
            for (std::size_t i = 0; i < plen; ++i)
                pcount += r.trace[i].cost;
            if (pcount != it.level || r.preemptions != it.level)
            {
                ++st_.divergences;
                stop("preemption count of the prefix differs from its parent's computation");
                return false;
            }
            ++st_.by_preemptions[std::size_t(it.level)];
            st_.tree_nodes += r.trace.size() - (plen ? plen - 1 : 0);
            for (auto h : r.state_hashes)
                states_.insert(h);
            st_.states = states_.size();
            // children, pushed so that the DFS continues with the deepest alternative first
            for (std::size_t i = plen; i < r.trace.size(); ++i)
            {
                auto& s      = r.trace[i];
                bool  cur_en = s.cur >= 0 && ((s.enabled >> s.cur) & 1u);
                for (int t = 0; t < max_threads; ++t)
                {
                    if (!((s.enabled >> t) & 1u) || t == s.chosen)
                        continue;
                    int cost = (cur_en && t != s.cur) ? 1 : 0;
                    int lvl  = it.level + cost;
                    if (lvl > o_.max_preemptions)
                    {
                        ++st_.pruned;
                        continue;
                    }
                    item c;
                    c.choices.reserve(i + 1);
                    for (std::size_t k = 0; k < i; ++k)
                        c.choices.push_back(r.trace[k].chosen);
                    c.choices.push_back(u8(t));
                    c.check = step_hash(pre[i], s.enabled, s.cur, u8(t));
                    c.level = lvl;
                    levels_[std::size_t(lvl)].push_back(std::move(c));
                }
            }
            return true;
        }

        const explore_stats& stats() const
        {
            return st_;
        }
        std::size_t pending() const
        {
            std::size_t n = 0;
            for (auto& l : levels_)
                n += l.size();
            return n;
        }

    private:
        static u64 step_hash(u64 h, u8 enabled, signed char cur, u8 chosen)
        {
            return detail::mix(h, u64(enabled) | (u64(u8(cur)) << 8) | (u64(chosen) << 16));
        }
        static double now()
        {
            timeval tv;
            gettimeofday(&tv, nullptr);
            return double(tv.tv_sec) + double(tv.tv_usec) * 1e-6;
        }
        bool stop(const char* why)
        {
            stopped_        = true;
            st_.stop_reason = why;
            return false;
        }

        explore_options                o_;
        std::vector<std::vector<item>> levels_;
        int                            level_   = 0;
        bool                           stopped_ = false;
        explore_stats                  st_;
        std::unordered_set<u64>        states_;
    };

    /// Enumerates all schedules of the program built by make() (a fresh world per execution) with at
    /// most opts.max_preemptions preemptions. on_exec(world&, result, item) -> false stops early.
    template <class Make, class OnExec>
    explore_stats explore(const explore_options& opts, Make make, OnExec on_exec)
    {
        explorer    ex(opts);
        item        it;
        run_options ro;
        ro.max_steps = opts.max_steps;
        while (ex.next(it))
        {
            world*     w = make();
            run_result r = run(*w, it.choices, ro);
            bool       ok = ex.report(it, r);
            bool       go = ok && on_exec(*w, r, it);
            if (r.clean)
                delete w;
            if (!go)
            {
                explore_stats s = ex.stats();
                if (s.stop_reason.empty())
                    s.stop_reason = "stopped by caller";
                return s;
            }
        }
        return ex.stats();
    }
} // namespace sched
} // namespace verif

#endif
