// verif engine: explicit-state breadth-first search over operation histories of a
// real object. A "system" S provides (all static):
//   void   S::init();                    fresh world + freshly constructed object(s)
//   int    S::nops();                    size of the operation alphabet
//   bool   S::enabled(int op);           in the current world
//   std::string S::opname(int op);
//   void   S::apply(int op);             run the op on the real object; monitors report to T()
//   void*  S::world(); size_t S::world_size();   POD world for snapshot / key
//   void   S::finish();                  optional end-of-history closing check (monitors report to T())
#ifndef VERIF_EXPLORE_HPP
#define VERIF_EXPLORE_HPP

#include <algorithm>
#include <deque>
#include <set>
#include <unordered_map>
#include <unordered_set>

#include "core.hpp"
#include "world.hpp"

namespace verif
{
    struct found_violation
    {
        std::string              monitor, tag, detail, fingerprint;
        std::vector<std::string> history; // op names, last one is the violating op
        std::vector<int>         ops;
        bool                     confirmed = false;
    };

    // monitors whose violation ends a history. Empty = every monitor. A check passes the monitors of ITS property: a
    // transition that only violates monitors of other properties is recorded but the search continues behind it, so that
    // the downstream effect on this property is still explored (on the unchanged tree nothing fires, so nothing changes).
    inline std::set<std::string>& blocking_monitors()
    {
        static std::set<std::string> s;
        return s;
    }
    inline bool is_blocking(const std::vector<violation>& vs)
    {
        auto& b = blocking_monitors();
        if (b.empty())
            return true;
        for (auto& v : vs)
            if (v.monitor == "M-sane" || b.count(v.monitor))
                return true;
        return false;
    }

    struct explore_limits
    {
        std::size_t max_states = 2000000;
        double      deadline_s = 1e18; // absolute time (now_s) at which to stop
        int         max_depth  = 1 << 20;
        // snapshot mode: keep the world bytes of every not yet expanded state instead of replaying its history;
        // the history is still replayed from scratch (canon-on-replay) for every verify_every-th state
        bool        snapshots    = false;
        std::size_t verify_every = 16;
    };

    struct explore_result
    {
        std::string name;
        std::size_t states = 0, transitions = 0, replays = 0;
        int         max_depth = 0, completed_depth = 0;
        bool        fixpoint = false;
        std::string stop_reason;
        std::map<std::string, long> counters;      // event counters
        std::map<std::string, long> outcomes;      // distinct (op kind, outcome) labels
        std::vector<found_violation> violations;
        std::vector<std::string>     harness_errors;
        std::vector<std::vector<std::string>> samples;
        double wall_s = 0;

        std::string to_json() const
        {
            jobj o;
            o.str("name", name)
                .num("states", (long long)states)
                .num("transitions", (long long)transitions)
                .num("replays", (long long)replays)
                .num("max_depth", max_depth)
                .num("completed_depth", completed_depth)
                .boolean("fixpoint", fixpoint)
                .str("stop_reason", stop_reason)
                .dbl("wall_s", wall_s);
            jobj c;
            for (auto& kv : counters)
                c.num(kv.first, kv.second);
            o.raw("counters", c.done());
            jobj oc;
            for (auto& kv : outcomes)
                oc.num(kv.first, kv.second);
            o.raw("outcomes", oc.done());
            jarr vs;
            for (auto& v : violations)
            {
                jobj  jv;
                jarr  h;
                for (auto& s : v.history)
                    h.str(s);
                jarr ops;
                for (auto i : v.ops)
                    ops.raw(std::to_string(i));
                jv.str("monitor", v.monitor)
                    .str("tag", v.tag)
                    .str("detail", v.detail)
                    .str("fingerprint", v.fingerprint)
                    .boolean("confirmed", v.confirmed)
                    .raw("history", h.done())
                    .raw("ops", ops.done());
                vs.raw(jv.done());
            }
            o.raw("violations", vs.done());
            jarr he;
            for (auto& s : harness_errors)
                he.str(s);
            o.raw("harness_errors", he.done());
            jarr sm;
            for (auto& s : samples)
            {
                jarr h;
                for (auto& x : s)
                    h.str(x);
                sm.raw(h.done());
            }
            o.raw("samples", sm.done());
            return o.done();
        }
    };

    template <class S>
    struct explorer
    {
        struct node
        {
            u32     parent;
            u16     op;
            u16     depth;
            hash128 key;
        };
        std::vector<node>                               nodes;
        std::unordered_set<hash128, hash128_hash>       seen;
        explore_result                                  res;
        std::set<std::string>                           seen_fp;
        std::vector<u8>                                 snap;
        std::vector<std::vector<u8>>                    snaps; // snapshot mode: per node, freed after expansion
        std::vector<bool>                               taint; // node reached behind a violation of another property's monitor

        static hash128 key()
        {
            hasher h;
            h.bytes(S::world(), S::world_size());
            return h.get();
        }

        std::vector<int> history_of(u32 idx) const
        {
            std::vector<int> ops;
            while (idx != 0)
            {
                ops.push_back(nodes[idx].op);
                idx = nodes[idx].parent;
            }
            std::reverse(ops.begin(), ops.end());
            return ops;
        }

        // a step of a history that continues behind a violation of another property's monitor ("tainted") runs inside the
        // fallback region: harness code that trusts the library may crash on the broken state; that is reported as M-sane
        static void apply_t(int op, bool tainted)
        {
            if (!tainted)
            {
                S::apply(op);
                return;
            }
            int oc;
            VERIF_OUTER_GUARDED(oc, { S::apply(op); });
            if (oc != OUT_OK)
            {
                T().fail("M-sane", "crash-behind-foreign-violation",
                         std::string("the process ") + outcome_name(oc)
                             + " in a valid call sequence that continues behind a violation of another property's monitor");
                T().outcome = outcome_name(oc);
            }
        }
        static bool enabled_t(int op, bool tainted)
        {
            if (!tainted)
                return S::enabled(op);
            int  oc;
            bool e = false;
            VERIF_OUTER_GUARDED(oc, { e = S::enabled(op); });
            return oc == OUT_OK && e;
        }
        static std::string opname_t(int op, bool tainted)
        {
            if (!tainted)
                return S::opname(op);
            int         oc;
            std::string n;
            VERIF_OUTER_GUARDED(oc, { n = S::opname(op); });
            return oc == OUT_OK ? n : "op" + std::to_string(op);
        }

        // replay a history on a fresh world; returns false if any op raised a (blocking) violation
        static bool rebuild(const std::vector<int>& ops, std::string* why = nullptr, bool* tainted_out = nullptr)
        {
            S::init();
            bool tainted = false;
            if (tainted_out)
                *tainted_out = false;
            for (auto op : ops)
            {
                T().clear();
                if (!enabled_t(op, tainted))
                {
                    if (why)
                        *why = "op " + S::opname(op) + " not enabled on replay";
                    return false;
                }
                apply_t(op, tainted);
                if (!T().violations.empty() && (is_blocking(T().violations) || T().terminal))
                {
                    if (why)
                        *why = "violation on replay: " + T().violations[0].monitor + " "
                               + T().violations[0].detail;
                    return false;
                }
                if (!T().violations.empty())
                {
                    tainted = true;
                    if (tainted_out)
                        *tainted_out = true;
                }
            }
            return true;
        }

        void note_transition()
        {
            auto& t = T();
            for (auto& e : t.events)
                ++res.counters[e];
        }

        void record_violations(u32 from, int op)
        {
            auto& t   = T();
            auto  ops = history_of(from);
            ops.push_back(op);
            // copy because confirmation re-runs overwrite T()
            auto vs = t.violations;
            for (auto& v : vs)
            {
                std::string fp = v.monitor + "|" + v.tag + "|" + S::opkind(op);
                if (!seen_fp.insert(fp).second)
                    continue;
                found_violation f;
                f.monitor     = v.monitor;
                f.tag         = v.tag;
                f.detail      = v.detail;
                f.fingerprint = fp;
                f.ops         = ops;
                // build op names by replaying (op names may depend on state)
                // confirm: replay twice, the same monitor must fire again on the last op
                int confirmed = 0;
                for (int round = 0; round < 2; ++round)
                {
                    std::vector<int> prefix(ops.begin(), ops.end() - 1);
                    std::vector<std::string> names;
                    S::init();
                    bool ok = true, tainted = false;
                    for (auto o : prefix)
                    {
                        T().clear();
                        names.push_back(opname_t(o, tainted));
                        apply_t(o, tainted);
                        if (!T().violations.empty())
                        {
                            if (is_blocking(T().violations) || T().terminal)
                                ok = false;
                            else
                            {
                                tainted = true;
                                names.back() += "   [violates " + T().violations[0].monitor + " of another property, history continues]";
                            }
                        }
                    }
                    T().clear();
                    names.push_back(opname_t(op, tainted));
                    apply_t(op, tainted);
                    bool again = false;
                    for (auto& v2 : T().violations)
                        if (v2.monitor == v.monitor && v2.tag == v.tag)
                            again = true;
                    if (ok && again)
                        ++confirmed;
                    f.history = names;
                }
                f.confirmed = confirmed == 2;
                if (!f.confirmed)
                    res.harness_errors.push_back("violation " + fp
                                                 + " did not reproduce on replay (nondeterminism)");
                res.violations.push_back(f);
            }
        }

        explore_result run(const std::string& name, const explore_limits& lim)
        {
            double t0 = now_s();
            res       = explore_result();
            res.name  = name;
            nodes.clear();
            seen.clear();
            snaps.clear();
            taint.clear();
            snap.resize(S::world_size());

            S::init();
            if (!T().violations.empty())
            {
                // the constructor itself violates a monitor: report with an empty history
                auto vs = T().violations;
                for (auto& v : vs)
                {
                    found_violation f;
                    f.monitor     = v.monitor;
                    f.tag         = v.tag;
                    f.detail      = v.detail;
                    f.fingerprint = v.monitor + "|" + v.tag + "|construct";
                    f.history     = {"<construct>"};
                    int again     = 0;
                    for (int round = 0; round < 2; ++round)
                    {
                        S::init();
                        for (auto& v2 : T().violations)
                            if (v2.monitor == v.monitor && v2.tag == v.tag)
                            {
                                ++again;
                                break;
                            }
                    }
                    f.confirmed = again == 2;
                    if (seen_fp.insert(f.fingerprint).second)
                        res.violations.push_back(f);
                }
                res.states      = 1;
                res.transitions = 1;
                res.stop_reason = "constructor violation";
                res.wall_s      = now_s() - t0;
                return res;
            }
            T().clear();
            node root{0, 0, 0, key()};
            nodes.push_back(root);
            seen.insert(root.key);

            std::size_t head         = 0;
            int         cur_depth    = 0;
            bool        stopped      = false;
            while (head < nodes.size())
            {
                if (nodes[head].depth != cur_depth)
                {
                    res.completed_depth = cur_depth;
                    cur_depth           = nodes[head].depth;
                }
                if (nodes.size() >= lim.max_states)
                {
                    res.stop_reason = "state cap";
                    stopped         = true;
                    break;
                }
                if ((head & 63) == 0 && now_s() > lim.deadline_s)
                {
                    res.stop_reason = "deadline";
                    stopped         = true;
                    break;
                }
                if (cur_depth >= lim.max_depth)
                {
                    res.stop_reason = "depth bound";
                    stopped         = true;
                    break;
                }
                u32  idx = u32(head++);
                bool have_snap = lim.snapshots && idx < snaps.size() && !snaps[idx].empty();
                if (!have_snap || idx % lim.verify_every == 0)
                {
                    auto ops = history_of(idx);
                    std::string why;
                    if (!rebuild(ops, &why))
                    {
                        res.harness_errors.push_back("replay of a known state failed: " + why);
                        continue;
                    }
                    ++res.replays;
                    if (key() != nodes[idx].key)
                    {
                        res.harness_errors.push_back(
                            "canon-on-replay mismatch: history replayed from scratch gives a "
                            "different state key than the snapshot path (depth "
                            + std::to_string(ops.size()) + ")");
                        continue;
                    }
                    std::memcpy(snap.data(), S::world(), S::world_size());
                }
                else
                {
                    std::memcpy(snap.data(), snaps[idx].data(), S::world_size());
                    std::memcpy(S::world(), snap.data(), S::world_size());
                }
                if (have_snap)
                    std::vector<u8>().swap(snaps[idx]);
                bool dirty = false;
                int  n     = S::nops();
                bool tainted = idx < taint.size() && taint[idx];
                for (int op = 0; op < n; ++op)
                {
                    if (dirty)
                    {
                        std::memcpy(S::world(), snap.data(), S::world_size());
                        dirty = false;
                    }
                    if (!enabled_t(op, tainted))
                        continue;
                    dirty = true;
                    T().clear();
                    apply_t(op, tainted);
                    ++res.transitions;
                    note_transition();
                    ++res.outcomes[S::opkind(op) + ":" + T().outcome];
                    bool now_tainted = tainted;
                    if (!T().violations.empty())
                    {
                        bool block = is_blocking(T().violations) || T().terminal;
                        std::vector<u8> after;
                        if (!block)
                        {
                            // record_violations replays histories: keep the state reached by this transition
                            auto w = static_cast<const u8*>(S::world());
                            after.assign(w, w + S::world_size());
                        }
                        record_violations(idx, op);
                        if (block)
                            continue;
                        std::memcpy(S::world(), after.data(), S::world_size());
                        T().clear();
                        now_tainted = true;
                        ++res.counters["continued_behind_foreign_violation"];
                    }
                    if (T().terminal)
                        continue; // the operation ends the history (e.g. a deliberately invalid call that was reported)
                    auto k = key();
                    if (seen.insert(k).second)
                    {
                        node nn{idx, u16(op), u16(nodes[idx].depth + 1), k};
                        nodes.push_back(nn);
                        if (now_tainted)
                        {
                            taint.resize(nodes.size(), false);
                            taint.back() = true;
                        }
                        if (lim.snapshots)
                        {
                            snaps.resize(nodes.size());
                            auto w = static_cast<const u8*>(S::world());
                            snaps.back().assign(w, w + S::world_size());
                        }
                        if (nn.depth > res.max_depth)
                            res.max_depth = nn.depth;
                    }
                }
            }
            if (!stopped)
            {
                res.fixpoint        = true;
                res.completed_depth = res.max_depth;
                res.stop_reason     = "fixpoint";
            }
            res.states = nodes.size();
            // samples: deepest history + two others
            auto name_hist = [&](u32 idx) {
                auto                     ops = history_of(idx);
                std::vector<std::string> names;
                S::init();
                bool tainted = false;
                for (auto o : ops)
                {
                    T().clear();
                    names.push_back(opname_t(o, tainted));
                    apply_t(o, tainted);
                    if (!T().violations.empty())
                        tainted = true;
                }
                return names;
            };
            if (nodes.size() > 1)
            {
                res.samples.push_back(name_hist(u32(nodes.size() - 1)));
                res.samples.push_back(name_hist(u32(nodes.size() / 2)));
                res.samples.push_back(name_hist(u32(nodes.size() / 3 + 1 < nodes.size() ? nodes.size() / 3 + 1 : 1)));
            }
            res.wall_s = now_s() - t0;
            return res;
        }

        // replay one explicit history verbosely; returns number of violations
        static int replay_verbose(const std::vector<int>& ops)
        {
            S::init();
            int nv = 0;
            for (auto o : ops)
            {
                T().clear();
                std::string nm = S::opname(o);
                if (!S::enabled(o))
                {
                    std::printf("  %-28s NOT ENABLED\n", nm.c_str());
                    return -1;
                }
                S::apply(o);
                std::printf("  %-28s -> %s\n", nm.c_str(), T().outcome.c_str());
                for (auto& v : T().violations)
                {
                    std::printf("     VIOLATED %s [%s]: %s\n", v.monitor.c_str(), v.tag.c_str(),
                                v.detail.c_str());
                    ++nv;
                }
            }
            return nv;
        }
    };
} // namespace verif

#endif
