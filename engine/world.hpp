// verif engine: the closed world an allocator under test lives in.
// Everything that makes up the logical state is a POD inside one static object,
// so a state can be snapshotted/restored with memcpy and keyed by hashing its bytes.
//  - upstream_t: deterministic first-fit arena with a block table (the environment)
//  - shadow_t:   reference model of live allocations (the oracle's state)
//  - transient:  what happened during ONE operation (not part of the state)
#ifndef VERIF_WORLD_HPP
#define VERIF_WORLD_HPP

#include <map>
#include <new>
#include <string>
#include <vector>

#include "core.hpp"

namespace verif
{
    //=== what happened during one operation ===//
    struct violation
    {
        std::string monitor; // e.g. "M-content"
        std::string tag;     // condition tag used for the fingerprint
        std::string detail;
    };

    struct transient_t
    {
        int  up_allocs = 0, up_deallocs = 0, up_failed = 0;
        int  oom_h = 0, badsize_h = 0, leak_h = 0, invptr_h = 0, overflow_h = 0;
        long leak_amount = 0;
        const void* leak_alloc = nullptr;
        const char* leak_name  = nullptr;
        const void* overflow_mem = nullptr;
        std::size_t overflow_size = 0;
        const void* overflow_ptr  = nullptr;
        std::string outcome; // short label: "ok", "null", "oom", ...
        bool        terminal = false;     // the history must not be extended behind this operation
        int         report_state_same = -1; // set by the invalid-pointer handler: was the allocator still unchanged?
        std::vector<violation> violations;
        std::vector<std::string> events; // counters to bump

        void clear()
        {
            *this = transient_t();
        }
        void fail(const char* monitor, const std::string& tag, const std::string& detail)
        {
            violations.push_back({monitor, tag, detail});
        }
        void event(const char* e)
        {
            events.emplace_back(e);
        }
    };
    inline transient_t& T()
    {
        static transient_t t;
        return t;
    }

    // thrown by the upstream when it refuses (injected failure, block cap, arena exhausted)
    struct upstream_failure : std::bad_alloc
    {
        const char* what() const noexcept override
        {
            return "verif::upstream_failure";
        }
    };

    //=== the upstream ===//
    enum up_kind : u8
    {
        UP_NODE  = 0,
        UP_ARRAY = 1,
        UP_BLOCK = 2
    };

    struct up_block
    {
        u32 off, size;          // offset into arena, total bytes
        u32 count, esize, align; // as requested
        u8  kind, owner, src, pad;
    };

    template <int MAXB>
    struct upstream_t
    {
        u8*      mem;   // arena base (constant within a process)
        u64      ARENA; // arena bytes in use for this configuration
        up_block blk[MAXB]; // in acquisition order
        u32      nblk;
        u32      cap_blocks; // refuse when nblk == cap_blocks
        u32      fail_armed; // fail the next allocation
        u32      cur_owner;  // logical owner tag for new blocks / expected owner of releases
        u32      check_lifo; // releases must be most recent outstanding block of the same owner
        u32      frozen;     // any call is a violation (e.g. while destroying a moved-from object)
        u32      place;      // 0: first fit at the lowest address; 1: alternate lowest / highest address (non-monotonic block addresses); 2: always the highest address (descending)

        void init(u8* arena, std::size_t arena_bytes, u32 cap)
        {
            std::memset(static_cast<void*>(this), 0, sizeof *this);
            mem        = arena;
            ARENA      = arena_bytes;
            cap_blocks = cap;
            std::memset(arena, 0, arena_bytes);
        }

        u32 offset_of(const void* p) const
        {
            return u32(static_cast<const u8*>(p) - mem);
        }
        bool in_arena(const void* p) const
        {
            auto c = static_cast<const u8*>(p);
            return c >= mem && c < mem + ARENA;
        }

        // index of the outstanding block containing [off, off+n), -1 if none
        int find_containing(u32 off, u32 n) const
        {
            for (u32 i = 0; i < nblk; ++i)
                if (off >= blk[i].off && u64(off) + n <= u64(blk[i].off) + blk[i].size)
                    return int(i);
            return -1;
        }

        void* alloc(u8 kind, std::size_t count, std::size_t esize, std::size_t align, u8 src = 0)
        {
            auto& t = T();
            if (frozen)
                t.fail("M-upstream", "call-while-frozen",
                       "upstream allocation by an object that must not touch memory");
            std::size_t bytes = count * esize;
            if (fail_armed)
            {
                fail_armed = 0;
                ++t.up_failed;
                t.event("upstream_injected_failure");
                throw upstream_failure();
            }
            if (nblk >= cap_blocks || nblk >= u32(MAXB) || bytes == 0 || bytes > ARENA)
            {
                ++t.up_failed;
                t.event("upstream_refused");
                throw upstream_failure();
            }
            std::size_t a = align < 16 ? 16 : align;
            std::size_t pos = 0;
            if ((place == 1 && (nblk % 2) == 1) || place == 2)
            {
                // highest address that fits
                long p = long((ARENA - bytes) / a * a);
                for (;;)
                {
                    if (p < 0)
                    {
                        ++t.up_failed;
                        t.event("upstream_refused");
                        throw upstream_failure();
                    }
                    bool moved = false;
                    for (u32 i = 0; i < nblk; ++i)
                        if (std::size_t(p) < std::size_t(blk[i].off) + blk[i].size && blk[i].off < std::size_t(p) + bytes)
                        {
                            p     = (long(blk[i].off) - long(bytes)) / long(a) * long(a);
                            if (long(blk[i].off) - long(bytes) < 0)
                                p = -1;
                            moved = true;
                            break;
                        }
                    if (!moved)
                        break;
                }
                pos = std::size_t(p);
            }
            else
            // first fit at lowest address
            for (;;)
            {
                pos = (pos + a - 1) / a * a;
                if (pos + bytes > ARENA)
                {
                    ++t.up_failed;
                    t.event("upstream_refused");
                    throw upstream_failure();
                }
                bool moved = false;
                for (u32 i = 0; i < nblk; ++i)
                    if (pos < std::size_t(blk[i].off) + blk[i].size && blk[i].off < pos + bytes)
                    {
                        pos   = std::size_t(blk[i].off) + blk[i].size;
                        moved = true;
                        break;
                    }
                if (!moved)
                    break;
            }
            up_block b{};
            b.off   = u32(pos);
            b.size  = u32(bytes);
            b.count = u32(count);
            b.esize = u32(esize);
            b.align = u32(align);
            b.kind  = kind;
            b.owner = u8(cur_owner);
            b.src   = src;
            blk[nblk++] = b;
            ++t.up_allocs;
            std::memset(mem + pos, 0, bytes);
            return mem + pos;
        }

        void dealloc(u8 kind, void* p, std::size_t count, std::size_t esize, std::size_t align,
                     u8 src = 0) noexcept
        {
            auto& t = T();
            ++t.up_deallocs;
            if (frozen)
                t.fail("M-upstream", "call-while-frozen",
                       "upstream deallocation by an object that must not touch memory");
            if (!in_arena(p))
            {
                t.fail("M-upstream", "release-foreign",
                       fmt("upstream release of %p which is outside the arena", p));
                return;
            }
            u32 off = offset_of(p);
            int idx = -1;
            for (u32 i = 0; i < nblk; ++i)
                if (blk[i].off == off)
                    idx = int(i);
            if (idx < 0)
            {
                t.fail("M-upstream", "release-unknown",
                       fmt("upstream release of offset %u which is not an outstanding block "
                           "(double release or wrong address)",
                           off));
                return;
            }
            auto& b = blk[idx];
            if (b.kind != kind || b.count != count || b.esize != esize || b.align != align
                || b.src != src)
                t.fail("M-upstream", "release-mismatch",
                       fmt("upstream release of offset %u with (kind %d,count %zu,size %zu,align "
                           "%zu) but it was acquired with (kind %d,count %u,size %u,align %u)",
                           off, kind, count, esize, align, b.kind, b.count, b.esize, b.align));
            if (b.owner != cur_owner)
                t.fail("M-upstream", "release-wrong-owner",
                       fmt("block at offset %u belongs to logical owner %u but was released "
                           "while owner %u was operating",
                           off, b.owner, cur_owner));
            if (check_lifo)
            {
                for (u32 i = u32(idx) + 1; i < nblk; ++i)
                    if (blk[i].owner == b.owner && blk[i].src == b.src)
                    {
                        t.fail("M-upstream", "release-not-lifo",
                               fmt("block at offset %u released while block at offset %u, "
                                   "acquired later by the same allocator, is still outstanding",
                                   off, blk[i].off));
                        break;
                    }
            }
            std::memset(mem + b.off, 0, b.size);
            for (u32 i = u32(idx); i + 1 < nblk; ++i)
                blk[i] = blk[i + 1];
            --nblk;
            std::memset(&blk[nblk], 0, sizeof(up_block));
        }

        u32 outstanding_of(u32 owner) const
        {
            u32 n = 0;
            for (u32 i = 0; i < nblk; ++i)
                n += blk[i].owner == owner && blk[i].pad != 1; // pad == 1: pinned region (e.g. static storage)
            return n;
        }
        void retag(u32 from, u32 to)
        {
            for (u32 i = 0; i < nblk; ++i)
                if (blk[i].owner == from)
                    blk[i].owner = u8(to);
        }
        void swap_tags(u32 a, u32 b)
        {
            for (u32 i = 0; i < nblk; ++i)
            {
                if (blk[i].owner == a)
                    blk[i].owner = u8(b);
                else if (blk[i].owner == b)
                    blk[i].owner = u8(a);
            }
        }
    };

    //=== the shadow heap ===//
    struct live_t
    {
        u32 off, bytes;
        u32 count, size, align;
        u8  kind;  // 0 node, 1 array
        u8  owner; // slot
        u8  tag;   // harness defined (iteration index, marker level, ...)
        u8  fam;   // interface family used
        u32 aux;
    };

    inline u8 pattern_byte(u32 off, u32 i, u32 bytes)
    {
        u32 x = off + i;
        return u8((x * 131u) ^ ((x >> 8) * 17u) ^ (bytes * 7u) ^ 0x5Au);
    }

    template <int MAXL>
    struct shadow_t
    {
        live_t v[MAXL]; // sorted by offset
        u32    n;

        bool full() const
        {
            return n >= u32(MAXL);
        }
        // index of a live range intersecting [off, off+bytes), or -1
        int overlaps(u32 off, u32 bytes) const
        {
            for (u32 i = 0; i < n; ++i)
                if (off < v[i].off + v[i].bytes && v[i].off < off + bytes)
                    return int(i);
            return -1;
        }
        int insert(const live_t& l)
        {
            u32 i = n;
            while (i > 0 && v[i - 1].off > l.off)
            {
                v[i] = v[i - 1];
                --i;
            }
            v[i] = l;
            ++n;
            return int(i);
        }
        void erase(u32 i)
        {
            for (; i + 1 < n; ++i)
                v[i] = v[i + 1];
            --n;
            std::memset(&v[n], 0, sizeof(live_t));
        }
        u32 count_owner(u32 owner) const
        {
            u32 c = 0;
            for (u32 i = 0; i < n; ++i)
                c += v[i].owner == owner;
            return c;
        }
        void retag(u32 from, u32 to)
        {
            for (u32 i = 0; i < n; ++i)
                if (v[i].owner == from)
                    v[i].owner = u8(to);
        }
        void swap_tags(u32 a, u32 b)
        {
            for (u32 i = 0; i < n; ++i)
            {
                if (v[i].owner == a)
                    v[i].owner = u8(b);
                else if (v[i].owner == b)
                    v[i].owner = u8(a);
            }
        }
        void drop_owner(u32 owner)
        {
            for (u32 i = 0; i < n;)
                if (v[i].owner == owner)
                    erase(i);
                else
                    ++i;
        }
    };

    // fill / verify the user pattern of a live range
    inline void fill_pattern(u8* base, const live_t& l)
    {
        for (u32 i = 0; i < l.bytes; ++i)
            base[l.off + i] = pattern_byte(l.off, i, l.bytes);
    }
    // returns index of first differing byte or -1
    inline long verify_pattern(const u8* base, const live_t& l)
    {
        for (u32 i = 0; i < l.bytes; ++i)
            if (base[l.off + i] != pattern_byte(l.off, i, l.bytes))
                return long(i);
        return -1;
    }
} // namespace verif

#endif
