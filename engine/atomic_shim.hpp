// verif engine: compile-time <atomic> shim  (used by C14)
//
// Force-included (g++ -include engine/atomic_shim.hpp) in front of ONE library translation unit
// (src/temporary_allocator.cpp). Every operation on a std::atomic<T> object that this TU performs
// then calls the hook
//
//      extern "C" void verif_atomic_point(const char* what, const void* object, int kind);
//
// BEFORE the real operation is carried out (what: static string naming the operation, object: address
// of the atomic, kind: 1 = atomic pointer, 2 = atomic bool, 0 = other). The harness defines the hook
// and turns it into a scheduling point (sched::point(what)). Nothing in /repo is edited: the shim
//   1. includes <atomic> and every standard header the TU could include, so that their include guards
//      are set and none of them is ever parsed with the macro below in effect;
//   2. defines std::verif_atomic<T>: one real std::atomic<T> member (same size, alignment and
//      representation as std::atomic<T>, checked by static_assert), forwarding every member;
//   3. #define atomic verif_atomic   -- from here on `std::atomic<X>` in the library's own headers and
//      in the .cpp names the wrapper.
// The classes of the library that contain an atomic (temporary_stack_list_node::in_use_, the list head,
// the global leak counters) keep their layout, so the object file is link- and layout-compatible with
// the unshimmed harness TU and the rest of the library.
//
// Because EVERY atomic operation becomes a hook call, a change of the code under test that splits one
// atomic read-modify-write into a load and a store automatically gets a scheduling point in between.
#ifndef VERIF_ATOMIC_SHIM_HPP
#define VERIF_ATOMIC_SHIM_HPP

#if defined(__has_include)
#if __has_include(<bits/stdc++.h>)
#include <bits/stdc++.h> // libstdc++: the whole standard library
#endif
#endif
#include <algorithm>
#include <atomic>
#include <cassert>
#include <cerrno>
#include <climits>
#include <condition_variable>
#include <cstddef>
#include <cstdint>
#include <cstdio>
#include <cstdlib>
#include <cstring>
#include <exception>
#include <functional>
#include <future>
#include <iterator>
#include <limits>
#include <memory>
#include <mutex>
#include <new>
#include <stdexcept>
#include <string>
#include <thread>
#include <type_traits>
#include <typeinfo>
#include <utility>

extern "C" void verif_atomic_point(const char* what, const void* object, int kind);

namespace std
{
    template <class T>
    class verif_atomic
    {
        std::atomic<T> a_; // the real thing (this line is parsed before the macro exists)

        static constexpr int kind_ = std::is_pointer<T>::value ? 1 : (std::is_same<T, bool>::value ? 2 : 0);

        void pt(const char* what) const noexcept
        {
            verif_atomic_point(what, this, kind_);
        }
        void pt(const char* what) const volatile noexcept
        {
            verif_atomic_point(what, const_cast<const verif_atomic*>(this), kind_);
        }

    public:
        using value_type = T;

        verif_atomic() noexcept = default; // trivial: static objects stay zero-initialised, no dynamic init
        constexpr verif_atomic(T v) noexcept : a_(v) {}
        verif_atomic(const verif_atomic&)            = delete;
        verif_atomic& operator=(const verif_atomic&) = delete;
        verif_atomic& operator=(const verif_atomic&) volatile = delete;

        bool is_lock_free() const noexcept
        {
            return a_.is_lock_free();
        }

        T operator=(T v) noexcept
        {
            pt("atomic.store");
            a_.store(v);
            return v;
        }
        operator T() const noexcept
        {
            pt("atomic.load");
            return a_.load();
        }
        void store(T v, memory_order m = memory_order_seq_cst) noexcept
        {
            pt("atomic.store");
            a_.store(v, m);
        }
        T load(memory_order m = memory_order_seq_cst) const noexcept
        {
            pt("atomic.load");
            return a_.load(m);
        }
        T exchange(T v, memory_order m = memory_order_seq_cst) noexcept
        {
            pt("atomic.exchange");
            return a_.exchange(v, m);
        }
        bool compare_exchange_weak(T& e, T d, memory_order s, memory_order f) noexcept
        {
            pt("atomic.cas_weak");
            return a_.compare_exchange_weak(e, d, s, f);
        }
        bool compare_exchange_weak(T& e, T d, memory_order m = memory_order_seq_cst) noexcept
        {
            pt("atomic.cas_weak");
            return a_.compare_exchange_weak(e, d, m);
        }
        bool compare_exchange_strong(T& e, T d, memory_order s, memory_order f) noexcept
        {
            pt("atomic.cas_strong");
            return a_.compare_exchange_strong(e, d, s, f);
        }
        bool compare_exchange_strong(T& e, T d, memory_order m = memory_order_seq_cst) noexcept
        {
            pt("atomic.cas_strong");
            return a_.compare_exchange_strong(e, d, m);
        }

        // arithmetic / bit operations (integral and pointer T); templates so that they are only
        // instantiated when the code under test uses them
        template <class U>
        T fetch_add(U v, memory_order m = memory_order_seq_cst) noexcept
        {
            pt("atomic.fetch_add");
            return a_.fetch_add(v, m);
        }
        template <class U>
        T fetch_sub(U v, memory_order m = memory_order_seq_cst) noexcept
        {
            pt("atomic.fetch_sub");
            return a_.fetch_sub(v, m);
        }
        template <class U>
        T fetch_and(U v, memory_order m = memory_order_seq_cst) noexcept
        {
            pt("atomic.fetch_and");
            return a_.fetch_and(v, m);
        }
        template <class U>
        T fetch_or(U v, memory_order m = memory_order_seq_cst) noexcept
        {
            pt("atomic.fetch_or");
            return a_.fetch_or(v, m);
        }
        template <class U>
        T fetch_xor(U v, memory_order m = memory_order_seq_cst) noexcept
        {
            pt("atomic.fetch_xor");
            return a_.fetch_xor(v, m);
        }
        template <class U = T>
        U operator++() noexcept
        {
            pt("atomic.++");
            return ++a_;
        }
        template <class U = T>
        U operator++(int) noexcept
        {
            pt("atomic.++");
            return a_++;
        }
        template <class U = T>
        U operator--() noexcept
        {
            pt("atomic.--");
            return --a_;
        }
        template <class U = T>
        U operator--(int) noexcept
        {
            pt("atomic.--");
            return a_--;
        }
        template <class U>
        T operator+=(U v) noexcept
        {
            pt("atomic.+=");
            return a_ += v;
        }
        template <class U>
        T operator-=(U v) noexcept
        {
            pt("atomic.-=");
            return a_ -= v;
        }
        template <class U>
        T operator&=(U v) noexcept
        {
            pt("atomic.&=");
            return a_ &= v;
        }
        template <class U>
        T operator|=(U v) noexcept
        {
            pt("atomic.|=");
            return a_ |= v;
        }
        template <class U>
        T operator^=(U v) noexcept
        {
            pt("atomic.^=");
            return a_ ^= v;
        }
    };

    static_assert(sizeof(verif_atomic<bool>) == sizeof(std::atomic<bool>)
                      && alignof(verif_atomic<bool>) == alignof(std::atomic<bool>),
                  "shim changes the layout of atomic<bool>");
    static_assert(sizeof(verif_atomic<void*>) == sizeof(std::atomic<void*>)
                      && alignof(verif_atomic<void*>) == alignof(std::atomic<void*>),
                  "shim changes the layout of atomic<T*>");
    static_assert(sizeof(verif_atomic<std::size_t>) == sizeof(std::atomic<std::size_t>), "shim changes the layout");
    static_assert(std::is_trivially_default_constructible<verif_atomic<void*>>::value
                      == std::is_trivially_default_constructible<std::atomic<void*>>::value,
                  "shim changes static initialisation");
} // namespace std

#define VERIF_ATOMIC_SHIM_ACTIVE 1
#define atomic verif_atomic

#endif
